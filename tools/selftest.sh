#!/bin/bash
# tools/selftest.sh determinism [scale]
# Runs every claimed check twice at a reduced size - once with 3 workers, once
# with 16 - dumping one line per run (profile, index, fingerprint, status,
# class) and compares the dumps: the set of executions explored and every
# fingerprint must be a function of VERIF_SEED and the code alone.
cd "$(dirname "$0")/.." || exit 2
mode="${1:-determinism}"; scale="${2:-0.05}"
[ "$mode" = determinism ] || { echo "usage: selftest.sh determinism [scale]"; exit 2; }
mkdir -p build/selftest
ids=$(python3 -c "import json;print(' '.join(c['property_id'] for c in json.load(open('MANIFEST.json'))['checks']))")
bad=0; total=0
for id in $ids; do
  build/asan/vsim check $id --scale $scale --workers 3  --seed 424242 --no-corpus --no-evidence --dump-fps build/selftest/$id.a >/dev/null 2>&1
  build/asan/vsim check $id --scale $scale --workers 16 --seed 424242 --no-corpus --no-evidence --dump-fps build/selftest/$id.b >/dev/null 2>&1
  n=$(wc -l < build/selftest/$id.a)
  total=$((total+n))
  if cmp -s build/selftest/$id.a build/selftest/$id.b; then
    echo "$id: $n runs, fingerprints identical with 3 and 16 workers"
  else
    d=$(diff build/selftest/$id.a build/selftest/$id.b | grep -c '^[<>]')
    echo "$id: MISMATCH ($d differing lines of $n)"; diff build/selftest/$id.a build/selftest/$id.b | head -4
    bad=1
  fi
done
# the fine flavour (access-level preemption) for the properties ./check runs it for
if [ -x build/fine/vsim ]; then
for id in C01 C02 C03 C04 C06 C07 C08 C09 C10 C18; do
  build/fine/vsim check $id --scale $scale --workers 3  --seed 424242 --no-corpus --no-evidence --dump-fps build/selftest/$id.fa >/dev/null 2>&1
  build/fine/vsim check $id --scale $scale --workers 16 --seed 424242 --no-corpus --no-evidence --dump-fps build/selftest/$id.fb >/dev/null 2>&1
  n=$(wc -l < build/selftest/$id.fa)
  total=$((total+n))
  if cmp -s build/selftest/$id.fa build/selftest/$id.fb; then
    echo "$id (fine): $n runs, fingerprints identical with 3 and 16 workers"
  else
    d=$(diff build/selftest/$id.fa build/selftest/$id.fb | grep -c '^[<>]')
    echo "$id (fine): MISMATCH ($d differing lines of $n)"; diff build/selftest/$id.fa build/selftest/$id.fb | head -4
    bad=1
  fi
done
fi
echo "determinism: $total runs executed twice; $( [ $bad = 0 ] && echo all identical || echo DIFFERENCES FOUND )"
exit $bad
