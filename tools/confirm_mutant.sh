#!/bin/bash
# tools/confirm_mutant.sh <worktree> <seeded-name>
# Confirms a sub-agent's seeded change independently: patch applies to a clean
# checkout, patched tree builds and passes the existing suite, demo fails with
# the change and passes without.  On success stores it under /verif/seeded/<name>/.
wt="$1"; name="$2"
[ -f "$wt/OUT/patch.diff" ] || { echo "no patch.diff"; exit 2; }
scratch=/tmp/confirm-$name
rm -rf "$scratch"; git -C /repo worktree prune
git -C /repo worktree add -q "$scratch" HEAD || exit 2
cleanup() { cp "$scratch/ctest.log" /tmp/last-ctest-$name.log 2>/dev/null; git -C /repo worktree remove --force "$scratch" 2>/dev/null; }
trap cleanup EXIT
cp -r "$wt/OUT" "$scratch/OUT"
cd "$scratch" || exit 2
# 1. clean tree: demo must pass
( bash OUT/demo/run_demo.sh "$scratch" > "$scratch/demo_clean.log" 2>&1 ); rc_clean=$?
# 2. apply
git apply OUT/patch.diff || { echo "PATCH DOES NOT APPLY"; exit 1; }
cmake -G Ninja -B _build -S . > cfg.log 2>&1 && cmake --build _build -j16 > bld.log 2>&1 || { echo "BUILD FAILED"; tail bld.log; exit 1; }
( bash OUT/demo/run_demo.sh "$scratch" > "$scratch/demo_patched.log" 2>&1 ); rc_patched=$?
ctest --test-dir _build -j8 --timeout 900 > ctest.log 2>&1
fails=$(grep -E "^\s*[0-9]+ - .*\(" ctest.log | grep -vE "client-queue-is-flushed-after-abort|default-devices|one-video-stream|sleep-while-inspecting" | wc -l)
summary=$(grep -E "tests passed" ctest.log)
echo "demo clean rc=$rc_clean  demo patched rc=$rc_patched  suite: $summary  (non-flaky failures: $fails)"
if [ $rc_clean -eq 0 ] && [ $rc_patched -ne 0 ] && [ "$fails" -eq 0 ]; then
  mkdir -p /verif/seeded/$name
  cp OUT/patch.diff /verif/seeded/$name/
  rm -rf /verif/seeded/$name/demo; cp -r OUT/demo /verif/seeded/$name/demo
  cp OUT/notes.md /verif/seeded/$name/ 2>/dev/null
  tail -5 demo_clean.log > /verif/seeded/$name/demo_clean.tail.txt
  tail -5 demo_patched.log > /verif/seeded/$name/demo_patched.tail.txt
  echo "$summary" > /verif/seeded/$name/ctest_patched.summary.txt
  echo CONFIRMED
else
  echo "NOT CONFIRMED"; tail -5 demo_clean.log; tail -5 demo_patched.log; exit 1
fi
