#!/bin/bash
# tools/run_all.sh [quick|thorough]  - runs every claimed check, validates evidence
cd "$(dirname "$0")/.." || exit 2
tier="${1:-quick}"
ids=$(python3 -c "import json;print(' '.join(c['property_id'] for c in json.load(open('MANIFEST.json'))['checks']))")
rc=0
for id in $ids; do
  start=$(date +%s)
  out=$(./check $id --tier $tier 2>&1); r=$?
  end=$(date +%s)
  echo "$out" | grep -E "^VIOLATION|^UNREPRO|^KNOWN-FINDING|BUILD FAILED" | cut -c1-160
  echo "$out" | tail -1 | cut -c1-200
  echo "   -> $id exit=$r wall=$((end-start))s"
  [ $r -ne 0 ] && rc=1
done
python3-vt - <<'P'
import json,jsonschema,glob
s=json.load(open('/root/.vp/EVIDENCE.schema.json'))
m=json.load(open('MANIFEST.json'))
jsonschema.validate(m, json.load(open('/root/.vp/MANIFEST.schema.json')))
for c in m['checks']:
    e=json.load(open(c['evidence_file'].replace('/verif/',''))); jsonschema.validate(e,s)
    assert e['level']==c['level_claimed']['category'], (c['property_id'], e['level'])
print('manifest and all evidence files valid')
P
exit $rc
