#!/usr/bin/env python3
"""Writes /verif/MANIFEST.json from the table below (kept next to the checks so
that it is easy to keep current).  Run: python3 tools/gen_manifest.py"""
import json, os, sys

ROOT = os.path.dirname(os.path.dirname(os.path.abspath(__file__)))

# property -> (level, design_ref, technique, level text, level note)
CLAIMED = {
 "C01": ("exploration", "DESIGN.md §4 C01",
  "deterministic simulation: seeded operation sequences and thread schedules of the real channel.c against an exact reference model of the committed byte stream",
  "Seeded search over operation sequences (every interleaving of writer and reader operations is such a sequence, since each channel call is atomic under the channel lock) and over free-running thread schedules; every read is compared byte for byte with a reference stream, 'empty' is checked to mean 'drained'. Evidence, not proof: bounded to capacities <= 4 KiB, <= 8 readers, <= 200 operations per run.",
  "Trusts the simulation kernel (sim/kernel.cpp) to implement mutex/condvar semantics; interleavings are sequentially consistent; readers alternate map/unmap; one writer."),
 "C02": ("exploration", "DESIGN.md §4 C02",
  "deterministic simulation: shadow ownership map of ring addresses checked at every write_map return; mapped reader regions re-verified byte for byte until unmapped",
  "Same executions as C01 with an ownership oracle: a handed-out write region must be inside the buffer and disjoint from every byte any reader has mapped or not yet consumed; reader regions must not change while mapped.",
  "As C01. In free-running mode a reader's consumption counts from the invocation of its unmap (sound, marginally weaker)."),
 "C03": ("exploration", "DESIGN.md §4 C03",
  "deterministic simulation: seeded schedules with a preemption point inside cond_wait before enqueueing, spurious wake-ups and stalls; deadlock detection with a wait-for graph and step-budget liveness",
  "Seeded search over schedules of writer, readers and a refuse-writes toggler; a hang is detected at the instant every thread is blocked (or as a step budget overrun) and judged against the reference model: violation only if a refusal has returned or every reader has drained. In addition, at every quiescent instant (nothing runnable, nobody but the writer inside a channel call, no refusal requested) a writer waiting for a request that the ring geometry says fits is a violation.",
  "Trusts the kernel's model of pthread_cond_wait (atomic release-and-enqueue, broadcast wakes all current waiters, spurious wake-ups allowed). Liveness is bounded: 400000 scheduling steps."),

 "C11": ("fault_enumeration", "DESIGN.md §4 C11",
  "seeded HAL call histories against a scripted fault-injecting mock driver (every driver response is part of the plan); the mock frees the device inside close so ASan reports any touch-after-close",
  "Seeded search over call histories on camera and storage devices with every status/state code the driver can answer attached to the call that receives it; the mock driver judges the legality of what it is asked (stop without start, frame/append outside running, close count) and the HAL-reported state is compared with what the driver's responses imply. Single-threaded: the faults are the driver's responses.",
  "Driver function pointers are non-NULL; the harness itself never uses a device after close returned. The real device manager and loader are used to reach the mock (dl seam)."),
 "C13": ("exploration", "DESIGN.md §4 C13",
  "seeded init/set/copy/destroy histories on three live objects against a plain value model, with an allocator seam tracking every block of the module (and, in a separate fault profile, refusing single allocations inside calls) and ASan",
  "Seeded search over call histories with arbitrary strings (NULL, empty, long, unterminated) and 0..4 dimensions; after every call all fields are compared with the model, no heap block may be reachable from two objects, every live block must be reachable, strings must be terminated, and at the end nothing may be live. A second profile refuses the k-th allocation inside a call; afterwards strings must still be valid owned blocks, every field old or new, nothing leaked or released twice. No schedule/clock is involved (stated in DESIGN §5): the simulator contributes the allocator seam, history machinery, shrinking and replay.",
  "After a refused allocation the call's return value and which of old/new each field holds are not judged. Dimension names are NUL-terminated as set_dimension documents. init is applied to fresh storage only."),
 "C04": ("exploration", "DESIGN.md §4 C04",
  "deterministic simulation of the whole runtime (real acquire.c, source/filter/sink, channel, HAL, loader, platform.c) with a mock camera/storage driver: seeded schedules, stalls and rings of 2-40 frames; storage history compared frame for frame with what the camera delivered",
  "Seeded search over configurations (1-2 streams, shapes with every residue mod 8, all sample types, frame counts, write delays, camera pacing, storage and client speeds, ring capacities) and thread schedules; after acquire_stop the packets the recording storage received are parsed and must equal the camera's delivered frames: ids 0..N-1, hardware ids and timestamps, shape, keyed-hash pixel bytes.",
  "Mock devices stand in for real cameras/storage; ring capacities are shrunk through the channel_new link seam; sync-level preemption granularity (every lock/cond/thread/sleep call, every device call entry and exit, every log call)."),
 "C05": ("exploration", "DESIGN.md §4 C05",
  "deterministic simulation: an independent chain walker checks every packet at storage append and at every acquire_map_read (alignment, size field, exact landing, camera-reported shape)",
  "Same executions as C04/C06, plus the fault profile of C09 (a camera or storage call failing at an enumerated frame index), with an inline oracle on every packet boundary the runtime exposes; generated shapes cover all residues of the image size mod 8, wrap positions vary with the ring capacity, the client consumes partially.",
  "As C04."),
 "C06": ("exploration", "DESIGN.md §4 C06",
  "deterministic simulation with a generated monitoring client thread (poll period, partial consumption, long holds, late start, early stop) over sequences of acquisitions ended by stop or abort; frames attributed to camera frames by keyed hash and epoch",
  "Seeded search over client behaviours and schedules; oracles: consecutive frame ids per acquisition, exact pixels, region unchanged while held, nothing of a finished acquisition delivered to a map invoked after its stop/abort returned, map/unmap by a well-behaved client always succeed. Four genuine findings remain open (known_findings.txt) and are reported as KNOWN-FINDING; any other violation fails the check.",
  "As C04. The client is well behaved (map then unmap, one thread per stream)."),
 "C07": ("exploration", "DESIGN.md §4 C07",
  "deterministic simulation: stop/abort from the client or a third thread at seeded instants (camera waiting for a trigger, ring kept full by a monitoring client that walked away, client holding a region, infinite acquisitions; threads held between evaluating a wait predicate and being enqueued as waiters); progress-based step budgets and deadlock detection with a wait-for graph; thread table and device logs checked on return; follow-up acquisition judged by C04's oracle",
  "Bounded liveness by seeded search: a stop/abort that has not returned after 300000 scheduling steps without any frame, append or thread exit is a violation, as is any instant with all threads blocked. On return: no runtime thread alive, camera and storage driver-stopped, state Armed, storage holds a gap-free prefix; the next acquisition must be complete and correct.",
  "As C04. Client threads coordinate among themselves (no API call overlaps acquire_start/configure)."),
 "C08": ("exploration", "DESIGN.md §4 C08",
  "deterministic simulation of generated client programs over the public API (configure, start, start-while-running, trigger, monitor, stop, abort, device switches, shutdown) with a recording driver; history check of its call log",
  "Seeded search over programs from a stated grammar and over worker schedules; per device instance the recorded calls must form open (set|get|...)* (start ... stop)* close with start only when the HAL state is Armed, one stop per start, appends only between start and stop, exactly one close by shutdown at the latest; Running is only reported while a worker is alive.",
  "As C04. Re-configuration while Running is outside the grammar."),
 "C09": ("fault_enumeration", "DESIGN.md §4 C09",
  "deterministic simulation with device faults attached to a frame or append ordinal (camera get_frame/start, storage append/start) under seeded schedules and ring fill levels, followed by a fault-free acquisition",
  "Fault ordinals are drawn over every frame index of the generated acquisition, for camera and storage, under seeded schedules and ring capacities down to 2 frames (source blocked on a full ring when the sink dies). Oracles: no append after the storage failure, nothing stored beyond the failing camera frame, camera stopped, stop and abort return, not Running once workers exited, following acquisition complete (C04 oracle).",
  "As C04. Sampling, not exhaustive enumeration of (ordinal x schedule)."),
 "C10": ("exploration", "DESIGN.md §4 C10",
  "deterministic simulation with frame averaging k=2..8 on rings of 2-40 frames (accumulators land on used ring memory); every f32 frame at storage and monitor compared with the exact mean of its window of camera frames",
  "Seeded search over window sizes, integer sample types, shapes, frame counts, ring capacities and schedules of source, filter and sink; oracle: floor(N/k) complete windows (at most one extra frame), ids of the windows' first frames, every pixel within 2 ulp of the true mean of the k specific camera frames.",
  "As C04."),
 "C14": ("exploration", "DESIGN.md §4 C14",
  "seeded set/start/append/stop histories on the real raw writer through the real HAL and the real write-all loop of platform.c, over a simulated file layer that returns short and zero-length writes and holds multi-GiB files sparsely (a `huge` profile grows one file past 4 GiB); file bytes compared with the concatenation of the appended packets",
  "Seeded search over histories (1-2 devices, 1-4 acquisitions each to a fresh path, every URI spelling, packet groupings, frame sizes) and over OS write behaviours (random short writes of every length, spaced zero-length writes); after each stop - and after a set on a running device, accepted or refused, which ends the acquisition being written - the file at the prefix-stripped path must equal the bytes appended in that acquisition.",
  "Every acquisition uses a fresh path (files are created without truncation). Profile transient sweeps a failing write over every position: an acquisition in which every call reported success is judged like a fault-free one; after a reported failure only the acknowledged bytes are claimed (the file must begin with them)."),
 "C15": ("exploration", "DESIGN.md §4 C15",
  "seeded histories on the real tiff and tiff-json writers over the simulated file layer (incl. a `huge` profile whose file grows past 4 GiB, held sparsely); produced bytes parsed by an independent BigTIFF reader and JSON parser written from the specifications",
  "Seeded search over shapes, all sample types, frame counts, packet groupings, metadata, pixel scales, URI spellings, both device kinds and repeated start/stop cycles; oracle = exactly the stated clauses (header, chain length and zero link, offsets inside the file, no overlapping structures, width/height/bits/sample format per directory, strip bytes, description JSON with ids and timestamps, metadata on frame 0 or in metadata.json).",
  "Tag order, optional tags and resolution values are not judged. Profile transient sweeps a failing write over every position: after a reported append failure caused by a passing fault the file must be a valid BigTIFF holding the acknowledged frames (frames of the failed packet may follow); lasting faults are not judged there. tiff-json is always given metadata (it rejects an empty one at set, which is input validation)."),
 "C16": ("fault_enumeration", "DESIGN.md §4 C16",
  "fault enumeration on the simulated file layer: a fault-free twin run of each generated life-cycle history counts the create/write/lock/close calls, then the history is re-executed once per call ordinal with the fault at that ordinal (EINTR, EAGAIN, three zero-length writes, persistent EIO/ENOSPC, one-off EIO, open EACCES/ENOENT/EMFILE, flock failure, close EIO); the file layer tracks descriptor ownership",
  "For every generated history (storage kind x shape: open-close, open-set-close, start/stop cycles, operations after a failure, close while running, a second start while running, set while running, a second device taking over released descriptor numbers) every ordinal of the chosen fault family's call is swept. Oracles: no crash, no unbounded recursion (stack overflow is classified), no hang; after a write failure the device is not Running when the failing append returns; a failed create is reported by start; only descriptors the device opened are written or closed, each closed once, none left open after close, 0-2 never closed.",
  "One fault family per history (all families covered across histories); single-device histories (stale-number collisions between two streams are covered by the ownership tracking, not by a second live stream)."),
 "C12": ("exploration", "DESIGN.md §4 C12",
  "seeded input generation riding on the simulated loader: generated library presence, broken-library faults (no entry point, init returns NULL, describe fails) and device tables behind the dl seam; name patterns from a constructive grammar judged by an independent backtracking matcher; arbitrary byte patterns judged for 'error status, never a crash'",
  "Seeded search over configurations of the six optional driver libraries and over select/get/count/open calls. For constructive patterns (literals with case flips, prefixes/suffixes with .*, alternations, bracket sets, quantifiers) the result must be the first enumerated device of the kind that an independent whole-name, case-insensitive matcher accepts; arbitrary patterns up to 255 bytes, unknown kinds, out-of-range indices, corrupted identifiers and absent libraries must yield an error status. The pattern clause is a pure function of its input (DESIGN §5): the simulation proper contributes the loader/library dimension.",
  "Bracket sets without ranges; selections are only compared with the matcher when every enumerated entry could be described."),
 "C17": ("exploration", "DESIGN.md §4 C17",
  "seeded set/start/get_frame/stop histories on the three real simulated cameras, whose real streamer thread runs on the simulation kernel, under ASan with exact-size caller buffers and a guard allocator behind the camera's own malloc family (every block between inaccessible guards); both bin2 variants (avx2, and plain in a build without -mavx2); reported shape, strides and read-back values compared with a reference model",
  "Seeded search over camera kind, binning 1/2/4/8 (and rejected values), sample types, shapes incl. the clamping boundaries 8192/binning, offsets, exposures and re-configuration/restart histories, under seeded schedules of the streamer thread; any ASan report in render, binning, copy-out or reallocation is a violation.",
  "set is issued only while stopped. Profile oom refuses a buffer allocation inside some sets; what such a set returns or leaves in effect is not judged, memory safety afterwards is. Pixel values are not judged (the property is about memory safety and shape)."),
 "C18": ("exploration", "DESIGN.md §4 C18",
  "deterministic simulation: getter, trigger and stopper threads against the real streamer thread under seeded schedules, stalls and spurious wake-ups, across restarts",
  "Seeded search over schedules and over the timing of frame, trigger and stop calls. Oracles: strictly increasing hardware ids within a run, the count restarts (bounded by elapsed virtual time over half an exposure), with trigger mode no frame before the first trigger of that run and never more frames than triggers invoked, stop returns and releases a pending frame call within a step budget.",
  "Frame calls overlapping a stop are exempt from the freshness checks (not from returning); a trigger counts from its invocation."),
}

NOT_YET = {
}

NOT_APPLICABLE = {
}

def main():
    props = [json.loads(l) for l in open(os.path.join(ROOT, "properties.jsonl"))]
    checks = []
    na = []
    for p in props:
        pid = p["id"]
        if pid in CLAIMED:
            level, ref, tech, text, note = CLAIMED[pid]
            checks.append({
                "property_id": pid,
                "quick_cmd": f"./check {pid} --tier quick",
                "thorough_cmd": f"./check {pid} --tier thorough",
                "evidence_file": f"/verif/evidence/{pid}.json",
                "replay_cmd_template": f"./check {pid} --replay {{path}}",
                "engine": "vsim",
                "level_claimed": {"category": level, "text": text, "design_ref": ref},
                "level_note": note,
                "technique": tech,
            })
        elif pid in NOT_APPLICABLE:
            na.append({"property_id": pid, "reason": NOT_APPLICABLE[pid]})
        else:
            na.append({"property_id": pid, "reason": NOT_YET.get(pid,
                "not claimed yet: the simulation harness for this property is still being built (see DESIGN.md §4 for the design); no verdict is offered")})
    m = {
        "version": 1,
        "setup_cmd": "./check build",
        "hooks": {
            "guard": "ACQUIRE_COMMON_VERIF",
            "enable": "no source hooks are needed: the checks compile /repo's working tree unmodified and interpose below platform.c at link time (objcopy --redefine-syms, see sim/seams/*.txt); the fine flavour additionally compiles the repo's C files with -fsanitize=thread against a private __tsan runtime (sim/tsanrt.cpp); the plain flavour drops -mavx2; the guard name is reserved and unused",
            "baseline_off_cmd": "cmake --build /repo/_build && ctest --test-dir /repo/_build -j8 --timeout 900",
            "source_commits": [],
            "add_only": True,
        },
        "engines": [{
            "name": "vsim",
            "path": "/verif/build/asan/vsim",
            "serves_properties": [c["property_id"] for c in checks],
            "kind_free_text": "deterministic simulator (two flavours: build/asan/vsim and build/fine/vsim): real pthreads parked on futexes with exactly one runnable at a time, seeded scheduler (random walk / sticky / PCT), virtual clock, in-memory file layer, fault injection, fork-per-run workers under ASan+UBSan, ddmin shrinking of plans and schedules, replay gate",
        }],
        "checks": checks,
        "not_applicable": na,
        "notes": "All checks rebuild from /repo's working tree (make, incremental). VERIF_SEED / VERIF_TIER / VERIF_WORKERS / VERIF_SCALE are honoured. Known findings: /verif/known_findings.txt. Regression corpus: /verif/corpus/<id>/*.replay.",
    }
    json.dump(m, open(os.path.join(ROOT, "MANIFEST.json"), "w"), indent=1)
    print("MANIFEST.json:", len(checks), "checks,", len(na), "not claimed")

main()
