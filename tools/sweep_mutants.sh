#!/bin/bash
# runs every stored mutant against the check(s) its meta.json says detect it
cd /verif
for d in seeded/*/; do
  [ -n "$1" ] && ! echo "$d" | grep -Eq "$1" && continue
  n=$(basename $d)
  ids=$(python3 - "$d" <<'P'
import json,sys
m=json.load(open(sys.argv[1]+'meta.json'))
out=[]
for k,v in m.get('detected_by',{}).items():
    lv=v.lower()
    if lv.startswith('not detected') or lv.startswith('not ') or 'expected as well' in lv or lv.startswith('other-property'): continue
    out.append(k)
print(' '.join(out))
P
)
  [ -z "$ids" ] && { echo "$n: (no detecting check recorded)"; continue; }
  for id in $ids; do
    tier=quick
    r=$(tools/try_mutant.sh /verif/seeded/$n/patch.diff $id 2>&1 | grep -E "^exit=|patch does not apply|refusing" | head -1)
    echo "$n $id $r"
  done
done
