#!/bin/bash
# tools/try_mutant.sh <patch.diff> <ID> [<ID>...]   (env TIER=quick|thorough, EXTRA="--scale .."
# Applies a seeded change to /repo, runs the named checks, and reverts /repo.
patch="$1"; shift
cd /verif || exit 2
if ! git -C /repo diff --quiet; then echo "/repo has uncommitted changes; refusing"; exit 2; fi
git -C /repo apply "$patch" || { echo "patch does not apply"; exit 2; }
trap 'git -C /repo checkout -- . ; ./check build >/dev/null' EXIT
for id in "$@"; do
  echo "=== $id on $(basename $(dirname $patch))"
  start=$(date +%s)
  ./check "$id" --tier "${TIER:-quick}" --no-evidence $EXTRA > /tmp/try_mutant.$id.log 2>&1
  rc=$?
  end=$(date +%s)
  grep -E "^VIOLATION|^KNOWN-FINDING|^UNREPRODUCIBLE|BUILD FAILED|^final:|^minimised|runs \(" /tmp/try_mutant.$id.log | cut -c1-400
  echo "exit=$rc time=$((end-start))s"
done
