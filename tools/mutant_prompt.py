#!/usr/bin/env python3
"""Prints the prompt given to a fresh sub-agent that must break one property.
Usage: mutant_prompt.py <property id> <worktree dir> [hint]"""
import json, sys
pid, wt = sys.argv[1], sys.argv[2]
hint = sys.argv[3] if len(sys.argv) > 3 else ""
p = [json.loads(l) for l in open('/verif/properties.jsonl') if json.loads(l)['id'] == pid][0]
print(f"""You are working in a scratch git worktree of the C/C++ repository aliddell/acquire-common located at {wt} (a microscopy video-acquisition runtime: device HAL, driver loader, simulated cameras, TIFF/raw writers, and a multi-reader ring-buffer channel feeding source/filter/sink threads). Work ONLY inside {wt}. Do not read or modify /repo or /verif or any other directory outside {wt} (reading system headers is fine).

GOAL: produce ONE realistic change to the library's source code (not to its tests) that BREAKS the semantic property stated below, while the code still compiles and the repository's existing test suite still passes. Also produce a demonstration (a small test or program) that FAILS with your change applied and PASSES on the unchanged tree.

THE PROPERTY ({p['id']}: {p['title']}):
{p['statement']}
It is quantified over: {p['quantifier']['text']}
Files where the relevant mechanisms live: {', '.join(p['anchors']['files'])}

REQUIREMENTS FOR THE CHANGE
- It must be the kind of mistake a maintainer could plausibly make (a wrong condition, a missing notification, an off-by-one, a forgotten reset, a reordered statement, a dropped check, two sites that each look fine alone...). Keep it small (a few lines).
- It must need something specific to manifest: a particular thread interleaving, a fault at a particular point, a multi-step sequence of operations, an unusual input/size/configuration, or two cooperating sites. Ordinary use (what the existing tests do) must NOT expose it: the existing tests must still pass.
- It must genuinely violate the property as stated (not merely change behaviour the property does not speak about). {hint}

HOW TO BUILD AND TEST (offline sandbox, everything needed is installed)
- Configure+build:  cmake -G Ninja -B {wt}/_build -S {wt} && cmake --build {wt}/_build -j8      (about 10-30 s)
- Tests:  ctest --test-dir {wt}/_build -j4 --timeout 900      (the full suite can take 20-40 minutes; first run the handful of tests most related to what you changed, e.g. ctest -R <regex>, and run the full suite ONCE at the end. A few tests are known to be flaky even on the unchanged tree: test-acquire-video-runtime-client-queue-is-flushed-after-abort, -default-devices, -one-video-stream, -sleep-while-inspecting; ignore failures of those four.)
- Your demonstration may be a standalone C/C++ program compiled against the built libraries/sources in {wt} (you can compile repo source files directly into it), or a new test file; it may use sleeps, loops over many trials, small ring sizes (by calling lower-level functions such as channel_new directly), mock drivers, LD_PRELOAD/--wrap fault injection etc. It must exit non-zero (or print FAIL) with the change and exit zero (print PASS) without it, reasonably reliably.

DELIVERABLES (put them in {wt}/OUT/)
- patch.diff : `git diff` of your source change only (must apply with `git apply` to a clean checkout of the same commit)
- demo/ : the demonstration source plus a script run_demo.sh that builds and runs it against the tree in its current state (so that running it on the patched tree fails and on the clean tree passes); run_demo.sh must take the tree root as $1 (default {wt}).
- notes.md : what the change is, why it breaks the property, what exactly is needed for it to manifest (interleaving / fault / sequence / input), which tests you ran and their results on the patched tree, and the demo's output with and without the change.
Leave the worktree with the change APPLIED (uncommitted) when you finish. Do not commit. Do NOT use `git stash` (the stash is shared with other worktrees of the same repository): to test the clean tree use `git diff > /tmp/<unique>.diff; git apply -R /tmp/<unique>.diff` and re-apply afterwards, or a `git archive HEAD` export. Report a short summary at the end.""")
