#include "harness.h"

#include <stdarg.h>
#include <stdio.h>
#include <stdlib.h>
#include <string.h>

#include <sstream>

namespace sim {

int64_t
Plan::geti(const std::string& k, int64_t d) const
{
    auto it = cfg.find(k);
    return it == cfg.end() ? d : strtoll(it->second.c_str(), 0, 10);
}

std::string
Plan::gets(const std::string& k, const std::string& d) const
{
    auto it = cfg.find(k);
    return it == cfg.end() ? d : it->second;
}

double
Plan::getd(const std::string& k, double d) const
{
    auto it = cfg.find(k);
    return it == cfg.end() ? d : strtod(it->second.c_str(), 0);
}

void
Plan::seti(const std::string& k, int64_t v)
{
    cfg[k] = std::to_string(v);
}

void
Plan::setd(const std::string& k, double v)
{
    char b[64];
    snprintf(b, sizeof(b), "%.9g", v);
    cfg[k] = b;
}

void
Plan::sets(const std::string& k, const std::string& v)
{
    cfg[k] = v;
}

std::string
plan_to_text(const Plan& p)
{
    std::string s;
    s += "verif-replay 1\n";
    s += "harness " + p.harness + "\n";
    s += "property " + p.property + "\n";
    s += "profile " + p.profile + "\n";
    s += "seed " + std::to_string(p.seed) + "\n";
    if (!p.expect_class.empty())
        s += "expect_class " + p.expect_class + "\n";
    if (!p.expect_fp.empty())
        s += "expect_fp " + p.expect_fp + "\n";
    for (auto& kv : p.cfg)
        s += "cfg " + kv.first + " " + kv.second + "\n";
    for (auto& o : p.ops)
        s += "op " + o + "\n";
    if (p.has_events) {
        s += "sched";
        char b[64];
        for (auto& e : p.events) {
            snprintf(b, sizeof(b), " %llu:%d:%lld", (unsigned long long)e.step,
                     e.kind, (long long)e.a);
            s += b;
        }
        s += "\n";
    }
    return s;
}

static std::vector<SchedEvent>
parse_events(const std::string& rest)
{
    std::vector<SchedEvent> ev;
    const char* c = rest.c_str();
    while (*c) {
        while (*c == ' ')
            ++c;
        if (!*c)
            break;
        char* e = 0;
        unsigned long long st = strtoull(c, &e, 10);
        if (*e != ':')
            break;
        long k = strtol(e + 1, &e, 10);
        if (*e != ':')
            break;
        long long a = strtoll(e + 1, &e, 10);
        ev.push_back(SchedEvent{ (uint64_t)st, (int)k, (int64_t)a });
        c = e;
    }
    return ev;
}

std::vector<SchedEvent>
parse_sched_line(const std::string& rest)
{
    return parse_events(rest);
}

bool
plan_from_text(const std::string& text, Plan* out, std::string* err)
{
    Plan p;
    std::istringstream in(text);
    std::string line;
    bool header = false;
    while (std::getline(in, line)) {
        if (line.empty() || line[0] == '#')
            continue;
        size_t sp = line.find(' ');
        std::string key = line.substr(0, sp);
        std::string rest = sp == std::string::npos ? "" : line.substr(sp + 1);
        if (key == "verif-replay")
            header = true;
        else if (key == "harness")
            p.harness = rest;
        else if (key == "property")
            p.property = rest;
        else if (key == "profile")
            p.profile = rest;
        else if (key == "seed")
            p.seed = strtoull(rest.c_str(), 0, 10);
        else if (key == "expect_class")
            p.expect_class = rest;
        else if (key == "expect_fp")
            p.expect_fp = rest;
        else if (key == "cfg") {
            size_t s2 = rest.find(' ');
            if (s2 == std::string::npos)
                p.cfg[rest] = "";
            else
                p.cfg[rest.substr(0, s2)] = rest.substr(s2 + 1);
        } else if (key == "op")
            p.ops.push_back(rest);
        else if (key == "sched") {
            p.has_events = true;
            p.events = parse_events(rest);
        }
    }
    if (!header || p.harness.empty()) {
        if (err)
            *err = "not a verif-replay file";
        return false;
    }
    *out = p;
    return true;
}

SchedConfig
sched_of(const Plan& p)
{
    SchedConfig c;
    c.seed = mix64(p.seed, 0x5c4ed);
    if (p.cfg.count("sched.seed"))
        c.seed = (uint64_t)strtoull(p.gets("sched.seed").c_str(), 0, 10);
    c.strategy = (int)p.geti("sched.strategy", ST_RW);
    c.sticky_p = p.getd("sched.sticky_p", 0.9);
    c.pct_depth = (int)p.geti("sched.pct_depth", 2);
    c.pct_est_steps = (uint64_t)p.geti("sched.pct_est", 2000);
    c.quantum_ns = (uint64_t)p.geti("sched.quantum_ns", 1000);
    c.p_stall = p.getd("sched.p_stall", 0);
    c.p_spurious = p.getd("sched.p_spurious", 0);
    c.p_startdelay = p.getd("sched.p_startdelay", 0);
    c.p_access = p.getd("sched.p_access", 0);
    c.p_prewait = p.getd("sched.p_prewait", 0);
    c.p_timeout = p.getd("sched.p_timeout", 0);
    c.max_stall_ns = (uint64_t)p.geti("sched.max_stall_ns", 50000000);
    c.step_cap = (uint64_t)p.geti("sched.step_cap", 2000000);
    if (p.has_events) {
        c.replay = true;
        c.events = p.events;
    }
    return c;
}

void
draw_sched(Plan& p, Rng& rng, uint64_t est_steps, bool allow_stalls,
           bool allow_spurious)
{
    int s = (int)rng.below(10);
    if (s < 3) {
        p.seti("sched.strategy", ST_RW);
    } else if (s < 7) {
        p.seti("sched.strategy", ST_STICKY);
        static const double ps[] = { 0.5, 0.9, 0.99 };
        p.setd("sched.sticky_p", ps[rng.below(3)]);
    } else {
        p.seti("sched.strategy", ST_PCT);
        p.seti("sched.pct_depth", 1 + (int64_t)rng.below(3));
        p.seti("sched.pct_est", (int64_t)est_steps);
    }
    static const int64_t qs[] = { 10, 100, 1000, 10000, 100000 };
    p.seti("sched.quantum_ns", qs[rng.below(5)]);
    if (allow_stalls && rng.chance(0.4)) {
        static const double st[] = { 0.0005, 0.002, 0.01 };
        p.setd("sched.p_stall", st[rng.below(3)]);
        static const int64_t ms[] = { 100000, 5000000, 50000000 };
        p.seti("sched.max_stall_ns", ms[rng.below(3)]);
    }
    if (allow_spurious && rng.chance(0.3)) {
        static const double sp[] = { 0.001, 0.01, 0.05 };
        p.setd("sched.p_spurious", sp[rng.below(3)]);
    }
    if (allow_stalls && rng.chance(0.25))
        p.setd("sched.p_startdelay", 0.5);
    if (allow_stalls && rng.chance(0.3)) {
        static const double pt[] = { 0.001, 0.01, 0.05 };
        p.setd("sched.p_timeout", pt[rng.below(3)]);
    }
    if (allow_stalls && rng.chance(0.3)) {
        static const double pw[] = { 0.05, 0.3, 0.8 };
        p.setd("sched.p_prewait", pw[rng.below(3)]);
        if (!p.cfg.count("sched.max_stall_ns")) {
            static const int64_t ms[] = { 100000, 5000000, 50000000 };
            p.seti("sched.max_stall_ns", ms[rng.below(3)]);
        }
    }
}

int64_t
Op::i(const char* k, int64_t d) const
{
    auto it = kv.find(k);
    return it == kv.end() ? d : strtoll(it->second.c_str(), 0, 10);
}

std::string
Op::s(const char* k, const std::string& d) const
{
    auto it = kv.find(k);
    return it == kv.end() ? d : it->second;
}

Op
parse_op(const std::string& line)
{
    Op o;
    std::istringstream in(line);
    std::string tok;
    bool first = true;
    while (in >> tok) {
        if (first) {
            o.name = tok;
            first = false;
            continue;
        }
        size_t eq = tok.find('=');
        if (eq == std::string::npos)
            o.kv[tok] = "1";
        else
            o.kv[tok.substr(0, eq)] = tok.substr(eq + 1);
    }
    return o;
}

// ---------------------------------------------------------------- registry
static std::vector<Harness*>&
registry()
{
    static std::vector<Harness*> r;
    return r;
}

void
register_harness(Harness* h)
{
    registry().push_back(h);
}

Harness*
find_harness(const std::string& name)
{
    for (Harness* h : registry())
        if (name == h->name())
            return h;
    return nullptr;
}

// ------------------------------------------------------------ oracle gate
static std::string g_active;

static void
gated_fail(const char* oracle, const std::string& msg)
{
    oracle_fail(oracle, "%s", msg.c_str());
}

void
set_active_property(const std::string& p)
{
    g_active = p;
    set_fail_handler(gated_fail);
}

const std::string&
active_property()
{
    return g_active;
}

bool
oracle_gates(const char* id)
{
    // ids look like "C01.name"; anything not starting with C<digits>. gates
    if (id[0] != 'C' || !(id[1] >= '0' && id[1] <= '9'))
        return true;
    const char* dot = strchr(id, '.');
    if (!dot)
        return true;
    std::string prop(id, dot - id);
    if (g_active.empty() || g_active == "all")
        return true;
    return prop == g_active;
}

void
oracle_fail(const char* id, const char* fmt, ...)
{
    char buf[2048];
    va_list ap;
    va_start(ap, fmt);
    vsnprintf(buf, sizeof(buf), fmt, ap);
    va_end(ap);
    if (oracle_gates(id))
        violation(id, "%s", buf);
    std::string k = std::string("other.") + id;
    probe(k.c_str());
    finish_ok();
}

} // namespace sim
