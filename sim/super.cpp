// Supervisor (see super.h, DESIGN.md sections 3.4, 3.5, 6).
#include "super.h"

#include <errno.h>
#include <fcntl.h>
#include <poll.h>
#include <signal.h>
#include <stdarg.h>
#include <stdio.h>
#include <stdlib.h>
#include <string.h>
#include <sys/mman.h>
#include <sys/personality.h>
#include <sys/stat.h>
#include <sys/wait.h>
#include <time.h>
#include <unistd.h>

#include <algorithm>
#include <set>
#include <sstream>
#include <unordered_set>

namespace sim {

std::vector<SchedEvent>
parse_sched_line(const std::string& rest);

// ------------------------------------------------------------- registry
static std::vector<CheckSpec>&
checks()
{
    static std::vector<CheckSpec> c;
    return c;
}

void
register_check(const CheckSpec& c)
{
    checks().push_back(c);
}

const CheckSpec*
find_check(const std::string& p)
{
    for (auto& c : checks())
        if (c.property == p)
            return &c;
    return nullptr;
}

const std::vector<CheckSpec>&
all_checks()
{
    return checks();
}

// ---------------------------------------------------------------- utils
static double
wall_now()
{
    struct timespec ts;
    clock_gettime(CLOCK_MONOTONIC, &ts);
    return (double)ts.tv_sec + 1e-9 * (double)ts.tv_nsec;
}

static std::string
root_dir()
{
    const char* e = getenv("VERIF_ROOT");
    return e ? e : ".";
}

static std::string
json_escape(const std::string& s)
{
    std::string o;
    for (unsigned char c : s) {
        switch (c) {
            case '"':
                o += "\\\"";
                break;
            case '\\':
                o += "\\\\";
                break;
            case '\n':
                o += "\\n";
                break;
            case '\t':
                o += "\\t";
                break;
            case '\r':
                o += "\\r";
                break;
            default:
                if (c < 0x20 || c >= 0x7f) {
                    char b[8];
                    snprintf(b, sizeof(b), "\\u%04x", c);
                    o += b;
                } else
                    o += (char)c;
        }
    }
    return o;
}

static uint64_t
hash_str(const std::string& s)
{
    uint64_t h = 1469598103934665603ull;
    for (unsigned char c : s) {
        h ^= c;
        h *= 1099511628211ull;
    }
    return h;
}

static bool
read_file(const std::string& path, std::string* out)
{
    FILE* f = fopen(path.c_str(), "rb");
    if (!f)
        return false;
    char buf[65536];
    size_t n;
    out->clear();
    while ((n = fread(buf, 1, sizeof(buf), f)) > 0)
        out->append(buf, n);
    fclose(f);
    return true;
}

static bool
write_file(const std::string& path, const std::string& data)
{
    std::string tmp = path + ".tmp";
    FILE* f = fopen(tmp.c_str(), "wb");
    if (!f)
        return false;
    fwrite(data.data(), 1, data.size(), f);
    fclose(f);
    return rename(tmp.c_str(), path.c_str()) == 0;
}

static std::string
read_fd_all(int fd)
{
    std::string s;
    char buf[65536];
    for (;;) {
        ssize_t n = read(fd, buf, sizeof(buf));
        if (n > 0)
            s.append(buf, (size_t)n);
        else if (n == 0)
            break;
        else if (errno != EINTR)
            break;
    }
    return s;
}

// -------------------------------------------------------- known findings
struct Finding
{
    bool open;
    std::string property, cls, match, text;
};

static std::vector<Finding> g_findings;

static void
load_findings()
{
    g_findings.clear();
    std::string txt;
    if (!read_file(root_dir() + "/known_findings.txt", &txt))
        return;
    std::istringstream in(txt);
    std::string line;
    while (std::getline(in, line)) {
        if (line.empty() || line[0] == '#')
            continue;
        Finding f;
        if (line.rfind("open:", 0) == 0)
            f.open = true;
        else if (line.rfind("fixed:", 0) == 0)
            f.open = false;
        else
            continue;
        // open: property=C04 class=<id> match=<substring, '_'-joined> :: text
        std::istringstream ls(line.substr(line.find(':') + 1));
        std::string tok;
        bool in_text = false;
        while (ls >> tok) {
            if (in_text) {
                f.text += (f.text.empty() ? "" : " ") + tok;
            } else if (tok == "::")
                in_text = true;
            else if (tok.rfind("property=", 0) == 0)
                f.property = tok.substr(9);
            else if (tok.rfind("class=", 0) == 0)
                f.cls = tok.substr(6);
            else if (tok.rfind("match=", 0) == 0)
                f.match = tok.substr(6);
            else if (!f.open)
                f.text += (f.text.empty() ? "" : " ") + tok;
        }
        g_findings.push_back(f);
    }
}

static std::string
normalize_ws(std::string s)
{
    for (auto& c : s)
        if (c == ' ')
            c = '_';
    return s;
}

// returns index of the matching OPEN finding or -1
static int
match_finding(const std::string& property,
              const std::string& cls,
              const std::string& detail)
{
    for (size_t i = 0; i < g_findings.size(); ++i) {
        const Finding& f = g_findings[i];
        if (!f.open || f.property != property || f.cls != cls)
            continue;
        if (!f.match.empty() &&
            normalize_ws(detail).find(f.match) == std::string::npos)
            continue;
        return (int)i;
    }
    return -1;
}

// ---------------------------------------------------------- run outcome
struct RunOutcome
{
    std::string status; // ok | violation | inconclusive | crash
    std::string cls, detail;
    uint64_t fp = 0, steps = 0, vtime = 0;
    std::map<std::string, uint64_t> probes;
    std::vector<SchedEvent> sched;
    std::vector<std::string> log;
    bool nontrivial = false;
};

static std::string
classify_crash(const std::string& err, int wstatus)
{
    std::string kind = "unknown";
    size_t p = err.find("ERROR: AddressSanitizer: ");
    if (p != std::string::npos) {
        size_t q = p + strlen("ERROR: AddressSanitizer: ");
        size_t e = err.find_first_of(" \n", q);
        kind = err.substr(q, e - q);
        if (kind == "attempting") { // "attempting double-free"
            size_t e2 = err.find_first_of(" \n", e + 1);
            kind = err.substr(e + 1, e2 - e - 1);
        }
    } else if ((p = err.find("runtime error:")) != std::string::npos) {
        kind = "ubsan";
    } else if (err.find("terminate called") != std::string::npos) {
        kind = "terminate";
    } else if (WIFSIGNALED(wstatus)) {
        kind = "signal" + std::to_string(WTERMSIG(wstatus));
    } else if (WIFEXITED(wstatus)) {
        kind = "exit" + std::to_string(WEXITSTATUS(wstatus));
    }
    // top frame inside /repo
    std::string frame = "?";
    std::istringstream in(err);
    std::string line;
    std::string first_any;
    while (std::getline(in, line)) {
        // only the faulting stack counts, not the allocation/free stacks
        if (line.find("is located") != std::string::npos ||
            line.find("allocated by thread") != std::string::npos ||
            line.find("freed by thread") != std::string::npos)
            break;
        size_t h = line.find('#');
        if (h == std::string::npos)
            continue;
        size_t in_ = line.find(" in ", h);
        if (in_ == std::string::npos)
            continue;
        size_t fs = in_ + 4;
        size_t fe = line.find(' ', fs);
        std::string fn = line.substr(fs, fe == std::string::npos ? fe : fe - fs);
        if (first_any.empty() && line.find("libasan") == std::string::npos &&
            fn.find("__interceptor") == std::string::npos &&
            fn.find("__asan") == std::string::npos)
            first_any = fn;
        if (line.find("/repo/") != std::string::npos) {
            frame = fn;
            break;
        }
    }
    if (frame == "?" && !first_any.empty())
        frame = first_any;
    return "crash:" + kind + ":" + frame;
}

static void
parse_child_output(const std::string& out,
                   const std::function<void(uint64_t, bool, uint64_t, uint64_t,
                                            uint64_t)>& on_ok_run,
                   std::map<std::string, uint64_t>* batch_probes,
                   RunOutcome* terminal,
                   bool* has_terminal,
                   bool* batch_done)
{
    *has_terminal = false;
    *batch_done = false;
    std::istringstream in(out);
    std::string line;
    bool in_block = false;
    bool crash_sched_next = false;
    while (std::getline(in, line)) {
        if (line.empty())
            continue;
        if (!in_block) {
            if (line[0] == 'r' && line[1] == ' ') {
                unsigned long long idx, fp, st, vt;
                int nt;
                if (sscanf(line.c_str(), "r %llu %llx %d %llu %llu", &idx, &fp,
                           &nt, &st, &vt) == 5)
                    on_ok_run(idx, nt != 0, fp, st, vt);
            } else if (line[0] == 'P' && line[1] == ' ') {
                char name[256];
                unsigned long long v;
                if (sscanf(line.c_str(), "P %255s %llu", name, &v) == 2)
                    (*batch_probes)[name] += v;
            } else if (line[0] == 'B') {
                *batch_done = true;
            } else if (line[0] == 'K' && line[1] == ' ') {
                // a crashing run's last words: fingerprint, steps, time, and
                // its schedule on the next line
                unsigned long long fp, steps, vt;
                if (sscanf(line.c_str(), "K %llx %llu %llu", &fp, &steps,
                           &vt) == 3) {
                    terminal->fp = fp;
                    terminal->steps = steps;
                    terminal->vtime = vt;
                    crash_sched_next = true;
                }
            } else if (line[0] == 'S' && crash_sched_next) {
                terminal->sched =
                  parse_sched_line(line.size() > 1 ? line.substr(1) : "");
                crash_sched_next = false;
            } else if (line[0] == 'R' && line[1] == ' ') {
                in_block = true;
                *has_terminal = true;
                char st[64];
                unsigned long long fp, steps, vt;
                size_t nth;
                if (sscanf(line.c_str(),
                           "R status=%63s fp=%llx steps=%llu vtime=%llu "
                           "nthreads=%zu",
                           st, &fp, &steps, &vt, &nth) >= 4) {
                    terminal->status = st;
                    terminal->fp = fp;
                    terminal->steps = steps;
                    terminal->vtime = vt;
                }
            }
        } else {
            if (line[0] == 'C')
                terminal->cls = line.size() > 2 ? line.substr(2) : "";
            else if (line[0] == 'D')
                terminal->detail = line.size() > 2 ? line.substr(2) : "";
            else if (line[0] == 'P') {
                char name[256];
                unsigned long long v;
                if (sscanf(line.c_str(), "P %255s %llu", name, &v) == 2)
                    terminal->probes[name] += v;
            } else if (line[0] == 'S')
                terminal->sched =
                  parse_sched_line(line.size() > 1 ? line.substr(1) : "");
            else if (line[0] == 'L')
                terminal->log.push_back(line.size() > 2 ? line.substr(2) : "");
            else if (line[0] == 'E')
                in_block = false;
        }
    }
}

static int g_child_wall_cap = 60;

// Forks a child that runs `body` with the result fd installed; returns its
// stdout-protocol text, its stderr text and the wait status.
static void
fork_child(const std::function<void(int)>& body,
           std::string* out,
           std::string* err,
           int* wstatus)
{
    int pfd[2];
    if (pipe(pfd) != 0) {
        perror("pipe");
        exit(3);
    }
    int efd = memfd_create("vsim-err", 0);
    fflush(stdout);
    fflush(stderr);
    pid_t pid = fork();
    if (pid == 0) {
        close(pfd[0]);
        if (efd >= 0)
            dup2(efd, 2);
        alarm((unsigned)g_child_wall_cap);
        body(pfd[1]);
        _exit(0);
    }
    close(pfd[1]);
    *out = read_fd_all(pfd[0]);
    close(pfd[0]);
    while (waitpid(pid, wstatus, 0) < 0 && errno == EINTR) {
    }
    err->clear();
    if (efd >= 0) {
        lseek(efd, 0, SEEK_SET);
        *err = read_fd_all(efd);
        close(efd);
    }
}

static void
fdprintf(int fd, const char* fmt, ...)
{
    char buf[1024];
    va_list ap;
    va_start(ap, fmt);
    int n = vsnprintf(buf, sizeof(buf), fmt, ap);
    va_end(ap);
    if (n > 0) {
        size_t len = std::min((size_t)n, sizeof(buf) - 1);
        const char* p = buf;
        while (len) {
            ssize_t w = write(fd, p, len);
            if (w <= 0) {
                if (errno == EINTR)
                    continue;
                break;
            }
            p += w;
            len -= (size_t)w;
        }
    }
}

// Executes one explicit plan in a fresh child.
static RunOutcome
run_plan(Harness* H, const Plan& plan)
{
    std::string out, err;
    int ws = 0;
    fork_child(
      [&](int fd) {
          set_result_fd(fd);
          set_active_property(plan.property);
          H->execute(plan);
          RunResult rr;
          end_run(&rr);
          bool nt = H->nontrivial(plan.property, rr.probes);
          fdprintf(fd, "r 0 %016llx %d %llu %llu\n",
                   (unsigned long long)rr.fingerprint, nt ? 1 : 0,
                   (unsigned long long)rr.steps,
                   (unsigned long long)rr.vtime_ns);
          for (auto& kv : rr.probes)
              fdprintf(fd, "P %s %llu\n", kv.first.c_str(),
                       (unsigned long long)kv.second);
          fdprintf(fd, "S");
          for (auto& e : rr.sched)
              fdprintf(fd, " %llu:%d:%lld", (unsigned long long)e.step, e.kind,
                       (long long)e.a);
          fdprintf(fd, "\nB done\n");
      },
      &out, &err, &ws);
    RunOutcome ro;
    bool has_t = false, done = false;
    std::map<std::string, uint64_t> bp;
    bool got_ok = false;
    parse_child_output(
      out,
      [&](uint64_t, bool nt, uint64_t fp, uint64_t st, uint64_t vt) {
          got_ok = true;
          ro.status = "ok";
          ro.nontrivial = nt;
          ro.fp = fp;
          ro.steps = st;
          ro.vtime = vt;
      },
      &bp, &ro, &has_t, &done);
    if (has_t) {
        // terminal block overrides
    } else if (got_ok && done) {
        ro.probes = bp;
        // schedule line for ok runs
        size_t sp = out.find("\nS");
        if (sp != std::string::npos) {
            size_t e = out.find('\n', sp + 1);
            ro.sched = parse_sched_line(out.substr(sp + 2, e - sp - 2));
        }
    } else {
        if (WIFSIGNALED(ws) && WTERMSIG(ws) == SIGALRM) {
            ro.status = "inconclusive";
            ro.cls = "wall_cap";
        } else {
            ro.status = "crash";
            ro.cls = classify_crash(err, ws);
            ro.detail = err.substr(0, 6000);
        }
    }
    if (has_t && ro.status == "ok")
        ro.nontrivial = H->nontrivial(plan.property, ro.probes);
    return ro;
}

// --------------------------------------------------------------- workers
struct Shared
{
    volatile int stop;
    volatile unsigned long long runs_done;
};

struct ViolationRec
{
    std::string profile;
    uint64_t idx = 0;
    uint64_t seed = 0;
    std::string status; // violation | crash
    std::string cls, detail;
    uint64_t fp = 0;
    std::vector<SchedEvent> sched;
    std::vector<std::string> log;
};

struct Agg
{
    uint64_t runs = 0, ok = 0, violations = 0, crashes = 0, inconclusive = 0,
             nontrivial = 0, steps = 0, vtime = 0;
    std::map<std::string, uint64_t> probes;
    std::map<std::string, uint64_t> inconclusive_classes;
    std::map<std::string, uint64_t> per_profile_runs;
    std::map<int, uint64_t> known_hits;
    std::unordered_set<uint64_t> fps; // nontrivial fingerprints
    std::unordered_set<uint64_t> all_fps;
    std::vector<ViolationRec> viols; // not matching a known finding
    std::vector<std::string> samples;
    std::vector<std::string> fp_dump; // "profile idx fp status class"
};

// Flavour-specific finishing touches on a freshly generated plan.
static void
finalize_plan(Plan& p)
{
#ifdef VSIM_FINE
    // access-level preemption: every cross-thread memory access of the repo's
    // C code is a potential preemption point; the probability is drawn per run
    Rng r(mix64(p.seed, 0xacce55));
    static const double ps[] = { 0.01, 0.05, 0.2, 0.6 };
    p.sets("flavour", "fine");
    if (!p.cfg.count("sched.p_access"))
        p.setd("sched.p_access", ps[r.below(4)]);
#elif defined(VSIM_PLAIN)
    p.sets("flavour", "plain");
#else
    (void)p;
#endif
}

static uint64_t
profile_base(uint64_t base, const std::string& property,
             const std::string& profile)
{
    return mix64(base, hash_str(property + "/" + profile));
}

static uint64_t
run_seed(uint64_t base, const std::string& property, const std::string& profile,
         uint64_t idx)
{
    return mix64(profile_base(base, property, profile), idx);
}

static std::string
esc_nl(const std::string& s)
{
    std::string o = s;
    for (auto& c : o)
        if (c == '\n')
            c = '\x01';
    return o;
}

static std::string
unesc_nl(const std::string& s)
{
    std::string o = s;
    for (auto& c : o)
        if (c == '\x01')
            c = '\n';
    return o;
}

static std::string
sched_to_str(const std::vector<SchedEvent>& ev)
{
    std::string s;
    char b[64];
    for (auto& e : ev) {
        snprintf(b, sizeof(b), " %llu:%d:%lld", (unsigned long long)e.step,
                 e.kind, (long long)e.a);
        s += b;
    }
    return s;
}

static void
worker_main(int widx, int nworkers, const CheckSpec& spec, Harness* H,
            const std::string& tier, uint64_t base_seed, double scale,
            bool dump_fps, int out_fd, Shared* sh)
{
    Agg a;
    size_t want_samples = 2;
    for (auto& prof : spec.profiles) {
        const int B = std::max(1, H->batch(spec.property, prof.name));
        uint64_t R = tier == "thorough" ? prof.thorough_runs : prof.quick_runs;
        R = (uint64_t)((double)R * scale);
        if (R == 0 && scale > 0 && (tier == "thorough" ? prof.thorough_runs
                                                         : prof.quick_runs) > 0)
            R = 1;
        uint64_t nb = (R + B - 1) / B;
        for (uint64_t b = (uint64_t)widx; b < nb; b += (uint64_t)nworkers) {
            if (sh->stop)
                break;
            uint64_t i0 = b * B, i1 = std::min(R, i0 + B);
            while (i0 < i1 && !sh->stop) {
                std::string out, err;
                int ws = 0;
                fork_child(
                  [&](int fd) {
                      set_result_fd(fd);
                      set_active_property(spec.property);
                      std::map<std::string, uint64_t> bp;
                      for (uint64_t i = i0; i < i1; ++i) {
                          Plan p = H->generate_run(
                            profile_base(base_seed, spec.property, prof.name),
                            i, spec.property, prof.name);
                          finalize_plan(p);
                          H->execute(p);
                          RunResult rr;
                          end_run(&rr);
                          bool nt = H->nontrivial(spec.property, rr.probes);
                          fdprintf(fd, "r %llu %016llx %d %llu %llu\n",
                                   (unsigned long long)i,
                                   (unsigned long long)rr.fingerprint,
                                   nt ? 1 : 0, (unsigned long long)rr.steps,
                                   (unsigned long long)rr.vtime_ns);
                          for (auto& kv : rr.probes)
                              bp[kv.first] += kv.second;
                      }
                      for (auto& kv : bp)
                          fdprintf(fd, "P %s %llu\n", kv.first.c_str(),
                                   (unsigned long long)kv.second);
                      fdprintf(fd, "B done\n");
                  },
                  &out, &err, &ws);
                uint64_t completed = 0;
                RunOutcome term;
                bool has_t = false, done = false;
                parse_child_output(
                  out,
                  [&](uint64_t idx, bool nt, uint64_t fp, uint64_t st,
                      uint64_t vt) {
                      ++completed;
                      a.runs++;
                      a.ok++;
                      a.steps += st;
                      a.vtime += vt;
                      a.per_profile_runs[prof.name]++;
                      a.all_fps.insert(fp);
                      if (nt)
                          a.nontrivial++, a.fps.insert(fp);
                      if (nt || a.runs == 1) {
                          if (a.samples.size() < want_samples) {
                              Plan p = H->generate_run(
                                profile_base(base_seed, spec.property,
                                             prof.name),
                                idx, spec.property, prof.name);
                              finalize_plan(p);
                              a.samples.push_back(plan_to_text(p));
                          }
                      }
                      if (dump_fps) {
                          char bb[256];
                          snprintf(bb, sizeof(bb), "%s %llu %016llx ok -",
                                   prof.name.c_str(), (unsigned long long)idx,
                                   (unsigned long long)fp);
                          a.fp_dump.push_back(bb);
                      }
                  },
                  &a.probes, &term, &has_t, &done);
                if (done && !has_t) {
                    i0 = i1;
                    continue;
                }
                // the run with index i0+completed ended the child
                uint64_t bad = i0 + completed;
                if (bad >= i1) { // should not happen
                    i0 = i1;
                    continue;
                }
                if (!has_t) {
                    if (WIFSIGNALED(ws) && WTERMSIG(ws) == SIGALRM) {
                        term.status = "inconclusive";
                        term.cls = "wall_cap";
                    } else {
                        term.status = "crash";
                        term.cls = classify_crash(err, ws);
                        term.detail = err.substr(0, 6000);
                    }
                }
                a.runs++;
                a.per_profile_runs[prof.name]++;
                a.steps += term.steps;
                a.vtime += term.vtime;
                for (auto& kv : term.probes)
                    a.probes[kv.first] += kv.second;
                if (dump_fps) {
                    char bb[512];
                    snprintf(bb, sizeof(bb), "%s %llu %016llx %s %s",
                             prof.name.c_str(), (unsigned long long)bad,
                             (unsigned long long)term.fp, term.status.c_str(),
                             term.cls.substr(0, 200).c_str());
                    a.fp_dump.push_back(bb);
                }
                if (term.status == "ok") {
                    a.ok++;
                    a.all_fps.insert(term.fp);
                    if (H->nontrivial(spec.property, term.probes)) {
                        a.nontrivial++;
                        a.fps.insert(term.fp);
                    }
                } else if (term.status == "inconclusive") {
                    a.inconclusive++;
                    a.inconclusive_classes[term.cls]++;
                } else {
                    int k = match_finding(spec.property, term.cls, term.detail);
                    if (k >= 0) {
                        a.known_hits[k]++;
                        a.violations++;
                    } else {
                        if (term.status == "crash")
                            a.crashes++;
                        else
                            a.violations++;
                        if (a.viols.size() < 4) {
                            ViolationRec v;
                            v.profile = prof.name;
                            v.idx = bad;
                            v.seed = run_seed(base_seed, spec.property,
                                              prof.name, bad);
                            v.status = term.status;
                            v.cls = term.cls;
                            v.detail = term.detail;
                            v.fp = term.fp;
                            v.sched = term.sched;
                            v.log = term.log;
                            a.viols.push_back(v);
                        }
                        sh->stop = 1;
                    }
                }
                i0 = bad + 1;
            }
        }
    }
    // ---- ship the aggregate
    std::string o;
    char b[512];
    snprintf(b, sizeof(b),
             "W %llu %llu %llu %llu %llu %llu %llu %llu\n",
             (unsigned long long)a.runs, (unsigned long long)a.ok,
             (unsigned long long)a.violations, (unsigned long long)a.crashes,
             (unsigned long long)a.inconclusive,
             (unsigned long long)a.nontrivial, (unsigned long long)a.steps,
             (unsigned long long)a.vtime);
    o += b;
    for (auto& kv : a.probes) {
        snprintf(b, sizeof(b), "P %s %llu\n", kv.first.c_str(),
                 (unsigned long long)kv.second);
        o += b;
    }
    for (auto& kv : a.inconclusive_classes) {
        snprintf(b, sizeof(b), "I %s %llu\n", kv.first.c_str(),
                 (unsigned long long)kv.second);
        o += b;
    }
    for (auto& kv : a.per_profile_runs) {
        snprintf(b, sizeof(b), "F %s %llu\n", kv.first.c_str(),
                 (unsigned long long)kv.second);
        o += b;
    }
    for (auto& kv : a.known_hits) {
        snprintf(b, sizeof(b), "K %d %llu\n", kv.first,
                 (unsigned long long)kv.second);
        o += b;
    }
    for (auto& s : a.samples)
        o += "X " + esc_nl(s) + "\n";
    for (auto& s : a.fp_dump)
        o += "Z " + s + "\n";
    for (auto& v : a.viols) {
        snprintf(b, sizeof(b), "V %s %llu %llu %s %016llx\n", v.profile.c_str(),
                 (unsigned long long)v.idx, (unsigned long long)v.seed,
                 v.status.c_str(), (unsigned long long)v.fp);
        o += b;
        o += "Vc " + v.cls + "\n";
        o += "Vd " + esc_nl(v.detail) + "\n";
        o += "Vs" + sched_to_str(v.sched) + "\n";
        for (auto& l : v.log)
            o += "Vl " + l + "\n";
        o += "Ve\n";
    }
    snprintf(b, sizeof(b), "H %zu %zu\n", a.fps.size(), a.all_fps.size());
    o += b;
    {
        std::string bin;
        bin.reserve((a.fps.size() + a.all_fps.size()) * 8);
        for (uint64_t f : a.fps)
            bin.append((const char*)&f, 8);
        for (uint64_t f : a.all_fps)
            bin.append((const char*)&f, 8);
        o += bin;
    }
    const char* p = o.data();
    size_t n = o.size();
    while (n) {
        ssize_t w = write(out_fd, p, n);
        if (w <= 0) {
            if (errno == EINTR)
                continue;
            break;
        }
        p += w;
        n -= (size_t)w;
    }
}

static void
merge_worker(const std::string& data, Agg* a)
{
    size_t pos = 0;
    ViolationRec cur;
    bool in_v = false;
    while (pos < data.size()) {
        size_t e = data.find('\n', pos);
        if (e == std::string::npos)
            break;
        std::string line = data.substr(pos, e - pos);
        pos = e + 1;
        if (line.empty())
            continue;
        if (line[0] == 'W') {
            unsigned long long r, ok, v, c, i, nt, st, vt;
            if (sscanf(line.c_str(), "W %llu %llu %llu %llu %llu %llu %llu %llu",
                       &r, &ok, &v, &c, &i, &nt, &st, &vt) == 8) {
                a->runs += r;
                a->ok += ok;
                a->violations += v;
                a->crashes += c;
                a->inconclusive += i;
                a->nontrivial += nt;
                a->steps += st;
                a->vtime += vt;
            }
        } else if (line[0] == 'P' || line[0] == 'I' || line[0] == 'F') {
            char name[300];
            unsigned long long v;
            if (sscanf(line.c_str() + 2, "%299s %llu", name, &v) == 2) {
                if (line[0] == 'P')
                    a->probes[name] += v;
                else if (line[0] == 'I')
                    a->inconclusive_classes[name] += v;
                else
                    a->per_profile_runs[name] += v;
            }
        } else if (line[0] == 'K') {
            int k;
            unsigned long long v;
            if (sscanf(line.c_str(), "K %d %llu", &k, &v) == 2)
                a->known_hits[k] += v;
        } else if (line[0] == 'X') {
            a->samples.push_back(unesc_nl(line.substr(2)));
        } else if (line[0] == 'Z') {
            a->fp_dump.push_back(line.substr(2));
        } else if (line[0] == 'V' && line.size() > 1 && line[1] == ' ') {
            cur = ViolationRec();
            in_v = true;
            char prof[128], st[64];
            unsigned long long idx, seed, fp;
            if (sscanf(line.c_str(), "V %127s %llu %llu %63s %llx", prof, &idx,
                       &seed, st, &fp) == 5) {
                cur.profile = prof;
                cur.idx = idx;
                cur.seed = seed;
                cur.status = st;
                cur.fp = fp;
            }
        } else if (in_v && line.rfind("Vc ", 0) == 0) {
            cur.cls = line.substr(3);
        } else if (in_v && line.rfind("Vd", 0) == 0) {
            cur.detail = line.size() > 3 ? unesc_nl(line.substr(3)) : "";
        } else if (in_v && line.rfind("Vs", 0) == 0) {
            cur.sched = parse_sched_line(line.substr(2));
        } else if (in_v && line.rfind("Vl ", 0) == 0) {
            cur.log.push_back(line.substr(3));
        } else if (in_v && line == "Ve") {
            a->viols.push_back(cur);
            in_v = false;
        } else if (line[0] == 'H') {
            size_t n1 = 0, n2 = 0;
            sscanf(line.c_str(), "H %zu %zu", &n1, &n2);
            const char* p = data.data() + pos;
            for (size_t i = 0; i < n1 && pos + 8 <= data.size(); ++i) {
                uint64_t f;
                memcpy(&f, p + 8 * i, 8);
                a->fps.insert(f);
            }
            p += 8 * n1;
            for (size_t i = 0; i < n2; ++i) {
                uint64_t f;
                memcpy(&f, p + 8 * i, 8);
                a->all_fps.insert(f);
            }
            pos += 8 * (n1 + n2);
        }
    }
}

// -------------------------------------------------------------- shrinking
struct Shrinker
{
    Harness* H;
    std::string cls;
    int budget = 400;
    double deadline = 0;
    int execs = 0;

    // tries plan under its recorded schedule (modulo semantics) and under a
    // few fresh scheduling seeds; on success stores the realised schedule.
    bool reproduces(Plan& p)
    {
        if (execs >= budget || wall_now() > deadline)
            return false;
        for (int attempt = 0; attempt < 4; ++attempt) {
            Plan q = p;
            if (attempt == 0) {
                if (!q.has_events)
                    continue;
            } else {
                q.has_events = false;
                q.events.clear();
                if (attempt > 1)
                    q.cfg["sched.seed"] =
                      std::to_string(mix64(p.seed, 7777 + attempt));
            }
            ++execs;
            RunOutcome ro = run_plan(H, q);
            if ((ro.status == "violation" || ro.status == "crash") &&
                ro.cls == cls) {
                p = q;
                p.has_events = true;
                p.events = ro.sched;
                return true;
            }
            if (execs >= budget)
                break;
        }
        return false;
    }

    void ddmin_ops(Plan& p)
    {
        size_t chunk = std::max<size_t>(1, p.ops.size() / 2);
        while (chunk >= 1 && !p.ops.empty()) {
            bool progress = false;
            for (size_t i = 0; i < p.ops.size();) {
                if (execs >= budget || wall_now() > deadline)
                    return;
                Plan q = p;
                size_t e = std::min(p.ops.size(), i + chunk);
                q.ops.erase(q.ops.begin() + (long)i, q.ops.begin() + (long)e);
                if (reproduces(q)) {
                    p = q;
                    progress = true;
                } else
                    i += chunk;
            }
            if (chunk == 1 && !progress)
                break;
            if (!progress || chunk > 1)
                chunk = chunk / 2;
            if (chunk == 0) {
                if (progress)
                    chunk = 1;
                else
                    break;
            }
        }
    }

    void shrink_cfg(Plan& p)
    {
        for (auto& sk : H->shrink_keys()) {
            if (!p.cfg.count(sk.key))
                continue;
            int64_t v = p.geti(sk.key);
            while (v > sk.min) {
                if (execs >= budget || wall_now() > deadline)
                    return;
                int64_t nv = sk.min + (v - sk.min) / 2;
                Plan q = p;
                q.seti(sk.key, nv);
                if (reproduces(q)) {
                    p = q;
                    v = nv;
                } else
                    break;
            }
        }
    }

    void ddmin_sched(Plan& p)
    {
        if (!p.has_events)
            return;
        size_t chunk = std::max<size_t>(1, p.events.size() / 2);
        while (!p.events.empty()) {
            bool progress = false;
            for (size_t i = 0; i < p.events.size();) {
                if (execs >= budget || wall_now() > deadline)
                    return;
                Plan q = p;
                size_t e = std::min(p.events.size(), i + chunk);
                q.events.erase(q.events.begin() + (long)i,
                               q.events.begin() + (long)e);
                ++execs;
                RunOutcome ro = run_plan(H, q);
                if ((ro.status == "violation" || ro.status == "crash") &&
                    ro.cls == cls) {
                    q.events = ro.sched;
                    p = q;
                    progress = true;
                } else
                    i += chunk;
            }
            if (chunk == 1) {
                if (!progress)
                    break;
            } else
                chunk /= 2;
        }
    }
};

// ------------------------------------------------------------- evidence
static bool g_no_evidence = false;
static std::string g_summary_path;

static std::string
jstr(const std::string& s)
{
    return "\"" + json_escape(s) + "\"";
}

static std::string
jlist(const std::vector<std::string>& v)
{
    std::string o = "[";
    for (size_t i = 0; i < v.size(); ++i)
        o += (i ? "," : "") + jstr(v[i]);
    return o + "]";
}

static void
write_evidence(const CheckSpec& spec, const std::string& tier, uint64_t seed,
               const Agg& a, double wall, int workers, int reported_violations,
               const std::vector<std::string>& notes)
{
    if (g_no_evidence)
        return;
    std::string extra;
    int extra_violations = 0;
    if (const char* ef = getenv("VSIM_EVIDENCE_EXTRA")) {
        if (read_file(ef, &extra)) {
            size_t vp = extra.find("\"violations\":");
            if (vp != std::string::npos)
                extra_violations = atoi(extra.c_str() + vp + 13);
            while (!extra.empty() && (extra.back() == '\n' || extra.back() == ' '))
                extra.pop_back();
        }
    }
    reported_violations += extra_violations;
    std::string o = "{\n";
    o += " \"property_id\": " + jstr(spec.property) + ",\n";
    o += " \"tier\": " + jstr(tier) + ",\n";
    o += " \"seed\": " + std::to_string((long long)(seed & 0x7fffffffffffffffull)) + ",\n";
    o += " \"level\": " + jstr(spec.level) + ",\n";
    o += " \"wall_s\": " + std::to_string(wall) + ",\n";
    o += " \"violations\": " + std::to_string(reported_violations) + ",\n";
    o += " \"assumptions\": " + jlist(spec.assumptions) + ",\n";
    o += " \"coverage\": {\n";
    o += "  \"evaluations\": " + std::to_string(a.runs) + ",\n";
    o += "  \"distinct_nontrivial\": " + std::to_string(a.fps.size()) + ",\n";
    o += "  \"rule\": " + jstr(spec.rule) + ",\n";
    o += "  \"exhaustive\": false,\n";
    o += "  \"samples\": [";
    for (size_t i = 0; i < a.samples.size() && i < 3; ++i) {
        std::vector<std::string> lines;
        std::istringstream in(a.samples[i]);
        std::string l;
        while (std::getline(in, l))
            lines.push_back(l);
        o += (i ? "," : "") + std::string("\n   ") + jlist(lines);
    }
    o += "\n  ],\n";
    o += "  \"runs_ok\": " + std::to_string(a.ok) + ",\n";
    o += "  \"runs_nontrivial\": " + std::to_string(a.nontrivial) + ",\n";
    o += "  \"runs_inconclusive\": " + std::to_string(a.inconclusive) + ",\n";
    o += "  \"distinct_executions\": " + std::to_string(a.all_fps.size()) + ",\n";
    o += "  \"known_finding_hits\": " + std::to_string([&] {
        uint64_t s = 0;
        for (auto& kv : a.known_hits)
            s += kv.second;
        return s;
    }()) + ",\n";
    o += "  \"scheduling_steps\": " + std::to_string(a.steps) + ",\n";
    o += "  \"simulated_seconds\": " + std::to_string((double)a.vtime * 1e-9) + ",\n";
    o += "  \"runs_per_hour\": " +
         std::to_string(wall > 0 ? (double)a.runs * 3600.0 / wall : 0.0) + ",\n";
    o += "  \"workers\": " + std::to_string(workers) + ",\n";
    o += "  \"runs_per_profile\": {";
    {
        bool first = true;
        for (auto& kv : a.per_profile_runs) {
            o += (first ? "" : ",") + jstr(kv.first) + ":" +
                 std::to_string(kv.second);
            first = false;
        }
    }
    o += "},\n";
    o += "  \"inconclusive_classes\": {";
    {
        bool first = true;
        for (auto& kv : a.inconclusive_classes) {
            o += (first ? "" : ",") + jstr(kv.first) + ":" +
                 std::to_string(kv.second);
            first = false;
        }
    }
    o += "},\n";
    // probes split into groups by prefix
    auto group = [&](const char* key, const char* prefix, bool strip) {
        o += std::string("  \"") + key + "\": {";
        bool first = true;
        size_t pl = strlen(prefix);
        for (auto& kv : a.probes) {
            if (kv.first.compare(0, pl, prefix) != 0)
                continue;
            o += (first ? "" : ",") +
                 jstr(strip ? kv.first.substr(pl) : kv.first) + ":" +
                 std::to_string(kv.second);
            first = false;
        }
        o += "},\n";
    };
    group("faults_fired", "fault.", true);
    group("kernel_counters", "k.", true);
    group("other_observations", "other.", true);
    group("reach_probes", "reach.", true);
    group("counters", "n.", true);
    {
        std::vector<std::string> warn;
        for (auto& r : spec.reach_probes)
            if (!a.probes.count(r) || a.probes.at(r) == 0)
                warn.push_back("reach probe never hit: " + r);
        for (auto& n : notes)
            warn.push_back(n);
        o += "  \"warnings\": " + jlist(warn) + ",\n";
    }
    if (!extra.empty()) {
        const char* key = getenv("VSIM_EVIDENCE_EXTRA_KEY");
        o += "  \"" + std::string(key && *key ? key : "fine_flavour") +
             "\": " + extra + ",\n";
    }
    o += "  \"components_real\": " + jlist(spec.real_components) + ",\n";
    o += "  \"components_stub\": " + jlist(spec.stub_components) + "\n";
    o += " }\n}\n";
    std::string dir = root_dir() + "/evidence";
    mkdir(dir.c_str(), 0777);
    write_file(dir + "/" + spec.property + ".json", o);
}

// ------------------------------------------------------------------ gate
static bool
exec_replay_fresh(const std::string& self_exe, const std::string& path,
                  std::string* status, std::string* cls, std::string* fp)
{
    int pfd[2];
    if (pipe(pfd) != 0)
        return false;
    fflush(stdout);
    pid_t pid = fork();
    if (pid == 0) {
        dup2(pfd[1], 1);
        close(pfd[0]);
        close(pfd[1]);
        int dn = open("/dev/null", O_WRONLY);
        if (dn >= 0)
            dup2(dn, 2);
        execl(self_exe.c_str(), self_exe.c_str(), "replay-raw", path.c_str(),
              (char*)0);
        _exit(127);
    }
    close(pfd[1]);
    std::string out = read_fd_all(pfd[0]);
    close(pfd[0]);
    int ws;
    while (waitpid(pid, &ws, 0) < 0 && errno == EINTR) {
    }
    size_t p = out.find("RESULT ");
    if (p == std::string::npos)
        return false;
    std::istringstream in(out.substr(p + 7));
    std::string tok;
    while (in >> tok) {
        if (tok.rfind("status=", 0) == 0)
            *status = tok.substr(7);
        else if (tok.rfind("fp=", 0) == 0)
            *fp = tok.substr(3);
        else if (tok.rfind("class=", 0) == 0) {
            *cls = tok.substr(6);
            std::string rest;
            std::getline(in, rest);
            size_t nl = rest.find('\n');
            if (nl != std::string::npos)
                rest = rest.substr(0, nl);
            *cls += rest;
        }
    }
    return true;
}

static std::string g_self_exe;

static int
replay_raw(const std::string& path)
{
    std::string txt, err;
    Plan p;
    if (!read_file(path, &txt) || !plan_from_text(txt, &p, &err)) {
        fprintf(stderr, "cannot read replay file %s: %s\n", path.c_str(),
                err.c_str());
        return 2;
    }
    Harness* H = find_harness(p.harness);
    if (!H) {
        fprintf(stderr, "unknown harness %s\n", p.harness.c_str());
        return 2;
    }
#ifdef VSIM_FINE
    if (p.gets("flavour", "asan") != "fine")
        fprintf(stderr, "note: replaying an asan-flavour file with the fine "
                        "binary\n");
#else
    if (p.gets("flavour", "asan") == "fine") {
        fprintf(stderr, "this replay file needs the fine flavour: "
                        "build/fine/vsim\n");
        return 2;
    }
#endif
    H->zygote_init();
    RunOutcome ro = run_plan(H, p);
    printf("RESULT status=%s fp=%016llx class=%s\n", ro.status.c_str(),
           (unsigned long long)ro.fp, ro.cls.c_str());
    if (getenv("VSIM_VERBOSE")) {
        printf("DETAIL %s\n", ro.detail.c_str());
        for (auto& l : ro.log)
            printf("LOG %s\n", l.c_str());
        for (auto& kv : ro.probes)
            printf("PROBE %s %llu\n", kv.first.c_str(),
                   (unsigned long long)kv.second);
    }
    fflush(stdout);
    return (ro.status == "violation" || ro.status == "crash") ? 1 : 0;
}

static int
replay_cmd(const std::string& path)
{
    std::string txt, err;
    Plan p;
    if (!read_file(path, &txt) || !plan_from_text(txt, &p, &err)) {
        fprintf(stderr, "cannot read replay file %s: %s\n", path.c_str(),
                err.c_str());
        return 2;
    }
    Harness* H = find_harness(p.harness);
    if (!H)
        return 2;
    H->zygote_init();
    load_findings();
    RunOutcome ro = run_plan(H, p);
    printf("replay %s: status=%s class=%s fp=%016llx (expected class=%s "
           "fp=%s)\n",
           path.c_str(), ro.status.c_str(), ro.cls.c_str(),
           (unsigned long long)ro.fp, p.expect_class.c_str(),
           p.expect_fp.c_str());
    printf("detail: %s\n", ro.detail.c_str());
    for (auto& l : ro.log)
        printf("  log: %s\n", l.c_str());
    if (ro.status == "violation" || ro.status == "crash") {
        int k = match_finding(p.property, ro.cls, ro.detail);
        if (k >= 0) {
            printf("KNOWN-FINDING: property=%s %s\n", p.property.c_str(),
                   g_findings[k].text.c_str());
            return 0;
        }
        char rp[4096];
        const char* full = realpath(path.c_str(), rp);
        printf("VIOLATION property=%s replay=%s\n", p.property.c_str(),
               full ? full : path.c_str());
        return 1;
    }
    return 0;
}

// ----------------------------------------------------------------- check
static int
nproc_default()
{
    long n = sysconf(_SC_NPROCESSORS_ONLN);
    if (n < 1)
        n = 1;
    if (n > 16)
        n = 16;
    return (int)n;
}

static int
check_cmd(const std::string& property, const std::string& tier, uint64_t seed,
          int workers, double scale, const std::string& dump_path,
          bool no_corpus)
{
    const CheckSpec* spec = find_check(property);
    if (!spec) {
        fprintf(stderr, "unknown property %s\n", property.c_str());
        return 2;
    }
    Harness* H = find_harness(spec->harness);
    if (!H) {
        fprintf(stderr, "unknown harness %s\n", spec->harness.c_str());
        return 2;
    }
    double t0 = wall_now();
    load_findings();
    H->zygote_init();
    std::vector<std::string> notes;
    int reported = 0;
    std::set<int> known_printed;

    // ---- regression corpus first
    if (!no_corpus) {
        std::string dir = root_dir() + "/corpus/" + property;
        std::string listing;
        std::vector<std::string> files;
        {
            std::string cmd = "ls " + dir + "/*.replay 2>/dev/null";
            FILE* f = popen(cmd.c_str(), "r");
            if (f) {
                char b[4096];
                while (fgets(b, sizeof(b), f)) {
                    std::string s(b);
                    while (!s.empty() && (s.back() == '\n' || s.back() == '\r'))
                        s.pop_back();
                    if (!s.empty())
                        files.push_back(s);
                }
                pclose(f);
            }
        }
        std::sort(files.begin(), files.end());
        for (auto& f : files) {
            std::string txt, err;
            Plan p;
            if (!read_file(f, &txt) || !plan_from_text(txt, &p, &err))
                continue;
            p.property = property;
            RunOutcome ro = run_plan(H, p);
            // also under a few fresh schedules
            for (int k = 0; k < 3 && ro.status == "ok"; ++k) {
                Plan q = p;
                q.has_events = false;
                q.events.clear();
                q.cfg["sched.seed"] = std::to_string(mix64(seed, 99 + k));
                ro = run_plan(H, q);
                if (ro.status != "ok")
                    p = q, p.has_events = true, p.events = ro.sched;
            }
            if (ro.status == "violation" || ro.status == "crash") {
                int k = match_finding(property, ro.cls, ro.detail);
                if (k >= 0) {
                    if (!known_printed.count(k)) {
                        printf("KNOWN-FINDING: property=%s %s\n",
                               property.c_str(), g_findings[k].text.c_str());
                        known_printed.insert(k);
                    }
                    continue;
                }
                char rp[4096];
                const char* full = realpath(f.c_str(), rp);
                printf("corpus replay fails: %s class=%s detail=%s\n",
                       f.c_str(), ro.cls.c_str(), ro.detail.c_str());
                printf("VIOLATION property=%s replay=%s\n", property.c_str(),
                       full ? full : f.c_str());
                ++reported;
            }
        }
        if (reported) {
            Agg a;
            a.runs = files.size();
            write_evidence(*spec, tier, seed, a, wall_now() - t0, workers,
                           reported, { "corpus replay failed; search skipped" });
            fflush(stdout);
            return 1;
        }
    }

    // ---- workers
    Shared* sh = (Shared*)mmap(0, 4096, PROT_READ | PROT_WRITE,
                               MAP_SHARED | MAP_ANONYMOUS, -1, 0);
    sh->stop = 0;
    std::vector<pid_t> pids;
    std::vector<int> fds;
    fflush(stdout);
    for (int w = 0; w < workers; ++w) {
        int pfd[2];
        if (pipe(pfd) != 0) {
            perror("pipe");
            return 3;
        }
        pid_t pid = fork();
        if (pid == 0) {
            for (int fd : fds)
                close(fd);
            close(pfd[0]);
            worker_main(w, workers, *spec, H, tier, seed, scale,
                        !dump_path.empty(), pfd[1], sh);
            _exit(0);
        }
        close(pfd[1]);
        pids.push_back(pid);
        fds.push_back(pfd[0]);
    }
    std::vector<std::string> bufs((size_t)workers);
    {
        std::vector<struct pollfd> pf((size_t)workers);
        int open_n = workers;
        for (int w = 0; w < workers; ++w) {
            pf[(size_t)w].fd = fds[(size_t)w];
            pf[(size_t)w].events = POLLIN;
        }
        char buf[65536];
        while (open_n > 0) {
            int rc = poll(pf.data(), (nfds_t)workers, 1000);
            if (rc < 0 && errno != EINTR)
                break;
            for (int w = 0; w < workers; ++w) {
                if (pf[(size_t)w].fd < 0)
                    continue;
                if (pf[(size_t)w].revents & (POLLIN | POLLHUP)) {
                    ssize_t n = read(pf[(size_t)w].fd, buf, sizeof(buf));
                    if (n > 0)
                        bufs[(size_t)w].append(buf, (size_t)n);
                    else if (n == 0 || (n < 0 && errno != EINTR)) {
                        close(pf[(size_t)w].fd);
                        pf[(size_t)w].fd = -1;
                        --open_n;
                    }
                }
            }
        }
    }
    for (pid_t p : pids) {
        int ws;
        while (waitpid(p, &ws, 0) < 0 && errno == EINTR) {
        }
        if (!(WIFEXITED(ws) && WEXITSTATUS(ws) == 0))
            notes.push_back("a worker process died abnormally");
    }
    Agg a;
    for (auto& b : bufs)
        merge_worker(b, &a);
    munmap(sh, 4096);

    if (!dump_path.empty()) {
        std::sort(a.fp_dump.begin(), a.fp_dump.end());
        std::string d;
        for (auto& l : a.fp_dump)
            d += l + "\n";
        write_file(dump_path, d);
    }

    for (auto& kv : a.known_hits) {
        if (!known_printed.count(kv.first)) {
            printf("KNOWN-FINDING: property=%s %s (hit in %llu runs)\n",
                   property.c_str(), g_findings[(size_t)kv.first].text.c_str(),
                   (unsigned long long)kv.second);
            known_printed.insert(kv.first);
        }
    }

    int rc = 0;
    if (!a.viols.empty()) {
        // deterministic choice: profile order then run index
        std::sort(a.viols.begin(), a.viols.end(),
                  [&](const ViolationRec& x, const ViolationRec& y) {
                      size_t px = 0, py = 0;
                      for (size_t i = 0; i < spec->profiles.size(); ++i) {
                          if (spec->profiles[i].name == x.profile)
                              px = i;
                          if (spec->profiles[i].name == y.profile)
                              py = i;
                      }
                      if (px != py)
                          return px < py;
                      return x.idx < y.idx;
                  });
        const ViolationRec& v = a.viols[0];
        printf("violation in run %s/%llu seed=%llu class=%s\n  detail: %s\n",
               v.profile.c_str(), (unsigned long long)v.idx,
               (unsigned long long)v.seed, v.cls.c_str(), v.detail.c_str());
        for (auto& l : v.log)
            printf("  log: %s\n", l.c_str());
        Plan p = H->generate_run(profile_base(seed, property, v.profile),
                                 v.idx, property, v.profile);
        finalize_plan(p);
        p.has_events = true;
        p.events = v.sched;
        size_t ops0 = p.ops.size(), ev0 = p.events.size();
        Shrinker S;
        S.H = H;
        S.cls = v.cls;
        S.deadline = wall_now() + (tier == "thorough" ? 240 : 90);
        S.budget = tier == "thorough" ? 1500 : 500;
        bool confirmed = false;
        {
            Plan q = p;
            if (S.reproduces(q)) {
                p = q;
                confirmed = true;
            }
        }
        if (confirmed) {
            S.ddmin_ops(p);
            S.shrink_cfg(p);
            S.ddmin_sched(p);
        }
        printf("minimised: ops %zu -> %zu, schedule events %zu -> %zu, %d "
               "re-executions\n",
               ops0, p.ops.size(), ev0, p.events.size(), S.execs);
        p.expect_class = v.cls;
        // final execution for the fingerprint
        RunOutcome fin = run_plan(H, p);
        char fpb[32];
        snprintf(fpb, sizeof(fpb), "%016llx", (unsigned long long)fin.fp);
        p.expect_fp = fpb;
        std::string dir = root_dir() + "/replays";
        mkdir(dir.c_str(), 0777);
        char name[512];
        snprintf(name, sizeof(name), "%s/%s-%llu-%s-%llu.replay", dir.c_str(),
                 property.c_str(), (unsigned long long)seed, v.profile.c_str(),
                 (unsigned long long)v.idx);
        write_file(name, plan_to_text(p));
        char rp[4096];
        const char* full = realpath(name, rp);
        std::string path = full ? full : name;
        // gate: two fresh processes must reproduce class and fingerprint
        bool gate_ok = true;
        for (int k = 0; k < 2; ++k) {
            std::string st, cl, fp;
            if (!exec_replay_fresh(g_self_exe, path, &st, &cl, &fp) ||
                !(st == "violation" || st == "crash") || cl != v.cls ||
                fp != p.expect_fp) {
                printf("gate: fresh replay %d gave status=%s class=%s fp=%s "
                       "(expected class=%s fp=%s)\n",
                       k, st.c_str(), cl.c_str(), fp.c_str(), v.cls.c_str(),
                       p.expect_fp.c_str());
                gate_ok = false;
            }
        }
        if (!gate_ok) {
            printf("UNREPRODUCIBLE property=%s replay=%s (harness defect, "
                   "not a finding)\n",
                   property.c_str(), path.c_str());
            rc = 2;
        } else {
            printf("final: class=%s detail=%s\n", fin.cls.c_str(),
                   fin.detail.c_str());
            printf("VIOLATION property=%s replay=%s\n", property.c_str(),
                   path.c_str());
            reported++;
            rc = 1;
        }
    }
    double wall = wall_now() - t0;
    write_evidence(*spec, tier, seed, a, wall, workers, reported, notes);
    if (!g_summary_path.empty()) {
        char sb[1024];
        auto pv = [&](const char* k) -> unsigned long long {
            auto it = a.probes.find(k);
            return it == a.probes.end() ? 0ull : (unsigned long long)it->second;
        };
        snprintf(sb, sizeof(sb),
                 "{\"what\": \"same check, same oracles, access-level "
                 "preemption: repo C sources built with -fsanitize=thread "
                 "against a private __tsan runtime, every cross-thread memory "
                 "access is a preemption point with a per-run probability; no "
                 "ASan\", \"evaluations\": %llu, \"runs_ok\": %llu, "
                 "\"runs_nontrivial\": %llu, \"distinct_nontrivial\": %zu, "
                 "\"runs_inconclusive\": %llu, \"violations\": %d, "
                 "\"cross_thread_accesses\": %llu, \"switches\": %llu, "
                 "\"scheduling_steps\": %llu, \"wall_s\": %.1f}",
                 (unsigned long long)a.runs, (unsigned long long)a.ok,
                 (unsigned long long)a.nontrivial, a.fps.size(),
                 (unsigned long long)a.inconclusive, reported,
                 pv("k.cross_thread_accesses"), pv("k.switches"),
                 (unsigned long long)a.steps, wall);
        write_file(g_summary_path, sb);
    }
    printf("%s %s: %llu runs (%llu ok, %llu nontrivial, %zu distinct "
           "nontrivial, %llu inconclusive, %llu known-finding hits) in %.1fs\n",
           property.c_str(), tier.c_str(), (unsigned long long)a.runs,
           (unsigned long long)a.ok, (unsigned long long)a.nontrivial,
           a.fps.size(), (unsigned long long)a.inconclusive,
           (unsigned long long)[&] {
               uint64_t s = 0;
               for (auto& kv : a.known_hits)
                   s += kv.second;
               return s;
           }(),
           wall);
    fflush(stdout);
    return rc;
}

static int
runone_cmd(const std::string& property, const std::string& profile,
           uint64_t seed, uint64_t idx, bool print_plan)
{
    const CheckSpec* spec = find_check(property);
    if (!spec)
        return 2;
    Harness* H = find_harness(spec->harness);
    H->zygote_init();
    Plan p =
      H->generate_run(profile_base(seed, property, profile), idx, property,
                      profile);
    finalize_plan(p);
    if (print_plan)
        printf("%s", plan_to_text(p).c_str());
    RunOutcome ro = run_plan(H, p);
    printf("RESULT status=%s fp=%016llx class=%s\n", ro.status.c_str(),
           (unsigned long long)ro.fp, ro.cls.c_str());
    printf("detail: %s\nsteps=%llu vtime=%.6fs nontrivial=%d\n",
           ro.detail.c_str(), (unsigned long long)ro.steps,
           (double)ro.vtime * 1e-9, ro.nontrivial ? 1 : 0);
    for (auto& kv : ro.probes)
        printf("  probe %s = %llu\n", kv.first.c_str(),
               (unsigned long long)kv.second);
    for (auto& l : ro.log)
        printf("  log: %s\n", l.c_str());
    return 0;
}

int
super_main(int argc, char** argv)
{
    // one-time re-exec without ASLR: nothing address-keyed may differ between
    // two executions of the same seed
    if (!getenv("VSIM_NOASLR")) {
        setenv("VSIM_NOASLR", "1", 1);
        int cur = personality(0xffffffff);
        if (cur != -1 && personality(cur | ADDR_NO_RANDOMIZE) != -1)
            execv("/proc/self/exe", argv);
    }
    {
        char b[4096];
        ssize_t n = readlink("/proc/self/exe", b, sizeof(b) - 1);
        if (n > 0) {
            b[n] = 0;
            g_self_exe = b;
        } else
            g_self_exe = argv[0];
    }
    signal(SIGPIPE, SIG_IGN);
    if (argc < 2) {
        fprintf(stderr,
                "usage: vsim check <ID> [--tier quick|thorough] [--seed N] "
                "[--workers W] [--scale F] [--dump-fps FILE]\n"
                "       vsim replay <file>\n"
                "       vsim run <ID> <profile> <seed> <idx> [--plan]\n"
                "       vsim list\n");
        return 2;
    }
    std::string cmd = argv[1];
    if (cmd == "list") {
        for (auto& c : all_checks()) {
            printf("%s harness=%s level=%s profiles=", c.property.c_str(),
                   c.harness.c_str(), c.level.c_str());
            for (auto& p : c.profiles)
                printf("%s(%llu/%llu) ", p.name.c_str(),
                       (unsigned long long)p.quick_runs,
                       (unsigned long long)p.thorough_runs);
            printf("\n");
        }
        return 0;
    }
    if (cmd == "replay-raw" && argc >= 3)
        return replay_raw(argv[2]);
    if (cmd == "replay" && argc >= 3)
        return replay_cmd(argv[2]);
    if (cmd == "run" && argc >= 6) {
        bool pp = argc >= 7 && std::string(argv[6]) == "--plan";
        return runone_cmd(argv[2], argv[3], strtoull(argv[4], 0, 10),
                          strtoull(argv[5], 0, 10), pp);
    }
    if (cmd == "check" && argc >= 3) {
        std::string property = argv[2];
        std::string tier = getenv("VERIF_TIER") ? getenv("VERIF_TIER") : "quick";
        bool tier_given = false;
        uint64_t seed = 0;
        bool seed_given = false;
        int workers = nproc_default();
        double scale = 1.0;
        std::string dump;
        bool no_corpus = false;
        for (int i = 3; i < argc; ++i) {
            std::string a = argv[i];
            if (a == "--tier" && i + 1 < argc) {
                tier = argv[++i];
                tier_given = true;
            } else if (a == "--seed" && i + 1 < argc) {
                seed = strtoull(argv[++i], 0, 10);
                seed_given = true;
            } else if (a == "--workers" && i + 1 < argc)
                workers = atoi(argv[++i]);
            else if (a == "--scale" && i + 1 < argc)
                scale = atof(argv[++i]);
            else if (a == "--dump-fps" && i + 1 < argc)
                dump = argv[++i];
            else if (a == "--no-corpus")
                no_corpus = true;
            else if (a == "--no-evidence")
                g_no_evidence = true;
            else if (a == "--summary" && i + 1 < argc)
                g_summary_path = argv[++i];
        }
        (void)tier_given;
        if (tier != "quick" && tier != "thorough")
            tier = "quick";
        if (!seed_given) {
            const char* e = getenv("VERIF_SEED");
            if (e && *e)
                seed = strtoull(e, 0, 10);
            else
                seed = tier == "thorough" ? 7700002026ull : 2026092601ull;
        }
        if (getenv("VERIF_WORKERS"))
            workers = atoi(getenv("VERIF_WORKERS"));
        if (getenv("VERIF_SCALE"))
            scale = atof(getenv("VERIF_SCALE"));
        if (workers < 1)
            workers = 1;
        if (workers > 64)
            workers = 64;
        return check_cmd(property, tier, seed, workers, scale, dump, no_corpus);
    }
    fprintf(stderr, "bad command line\n");
    return 2;
}

} // namespace sim
