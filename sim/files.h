// Simulated file layer below platform.c (open/close/pwrite/flock/access/
// unlink).  DESIGN.md section 2.5.
#pragma once
#include <stdint.h>
#include <string>
#include <vector>
#include <map>

namespace simfs {

enum FaultKind
{
    F_NONE = 0,
    F_SHORT,      // pwrite writes arg (< n) bytes
    F_ZERO,       // pwrite returns 0
    F_EINTR,      // this call fails with EINTR
    F_EAGAIN,     // this call fails with EAGAIN
    F_EIO,        // this and every later call of that kind fails (EIO)
    F_ENOSPC,     // this and every later pwrite fails (ENOSPC)
    F_EIO_ONCE,   // only this call fails with EIO
    F_OPEN_EACCES,
    F_OPEN_ENOENT,
    F_OPEN_EMFILE,
    F_FLOCK_FAIL,
    F_CLOSE_EIO,
    F_ACCESS_FAIL,
    F_LATENCY,    // the call sleeps arg microseconds of virtual time
};

struct Fault
{
    std::string call; // pwrite | open | flock | close | access
    uint64_t ordinal; // n-th call of that kind in this run (0-based)
    int kind;
    int64_t arg;
};

struct Event
{
    std::string call;
    int fd;
    std::string path;
    int64_t result;
    int err;
    int ctx;       // device context label at the time of the call
    uint64_t off;  // pwrite offset
    uint64_t n;    // pwrite requested bytes
    bool bad = false;
};

void
reset(uint64_t seed);
void
add_fault(const Fault& f);
// every pwrite writes a random prefix with probability p (non-failing
// perturbation: "all short-write patterns")
void
set_random_short_writes(double p);
void
set_context(int ctx);
int
context();
// files
bool
exists(const std::string& path);
// nullptr if the file does not exist OR is held sparsely (see below)
const std::vector<uint8_t>*
contents(const std::string& path);
// Files that grow beyond 64 MiB are held sparsely (1 MiB chunks, all-zero
// chunks are not stored), so that multi-GiB files cost what their non-zero
// content costs.  size/read work for every file.
bool
is_sparse(const std::string& path);
uint64_t
size(const std::string& path); // UINT64_MAX if the file does not exist
// zero-fills holes and everything beyond the end; returns true if any byte of
// the range is backed by stored (non-hole) data
bool
read(const std::string& path, uint64_t off, uint64_t n, uint8_t* out);
std::vector<std::string>
list();
void
put(const std::string& path, const std::vector<uint8_t>& data);
void
add_dir(const std::string& path);
// the user deletes a file (no effect on open descriptors' numbering)
void
remove(const std::string& path);
const std::vector<Event>&
events();
uint64_t
calls(const std::string& call);
// descriptors still open, with the context that opened them
std::vector<std::pair<int, int>>
open_fds();
std::string
fd_path(int fd);
uint64_t
generation(const std::string& path); // bumped by every successful pwrite
std::string
normalize(const std::string& path);
// real scratch directory for std::filesystem users (created on demand under
// $VERIF_ROOT/build/scratch/<pid>)
std::string
scratch_dir();

} // namespace simfs
