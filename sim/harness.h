// Harness interface and the plan format shared by generator, executor,
// shrinker and replay files.
#pragma once
#include "kernel.h"

#include <map>
#include <string>
#include <vector>

namespace sim {

// A plan is what one simulated run executes: a configuration (key/value), an
// operation list (one text line per operation, faults attached to the
// operation that suffers them) and the scheduling configuration.  Replay files
// are plans plus the realised schedule.
struct Plan
{
    std::string harness;
    std::string property; // whose oracles gate
    std::string profile;
    uint64_t seed = 0;    // run seed (generation + scheduling)
    std::map<std::string, std::string> cfg;
    std::vector<std::string> ops;
    bool has_events = false;
    std::vector<SchedEvent> events; // recorded schedule (replay)
    // bookkeeping of replay files
    std::string expect_class;
    std::string expect_fp;

    int64_t geti(const std::string& k, int64_t dflt = 0) const;
    std::string gets(const std::string& k, const std::string& dflt = "") const;
    double getd(const std::string& k, double dflt = 0) const;
    void seti(const std::string& k, int64_t v);
    void setd(const std::string& k, double v);
    void sets(const std::string& k, const std::string& v);
};

std::string
plan_to_text(const Plan& p);
bool
plan_from_text(const std::string& text, Plan* out, std::string* err);

// Builds the SchedConfig out of plan.cfg (keys sched.*) and plan.events.
SchedConfig
sched_of(const Plan& p);
// Draws a scheduling configuration (strategy, quantum, buggify subset) from
// rng and stores it in p.cfg.  `est_steps` is the harness's guess of the run
// length (PCT change points).
void
draw_sched(Plan& p, Rng& rng, uint64_t est_steps, bool allow_stalls,
           bool allow_spurious);

// tokeniser for op lines: "name k=v k=v ..."
struct Op
{
    std::string name;
    std::map<std::string, std::string> kv;
    int64_t i(const char* k, int64_t d = 0) const;
    std::string s(const char* k, const std::string& d = "") const;
    bool has(const char* k) const { return kv.count(k) != 0; }
};
Op
parse_op(const std::string& line);

struct ShrinkKey
{
    std::string key;
    int64_t min;
};

struct Harness
{
    virtual ~Harness() {}
    virtual const char* name() const = 0;
    // Generation is a pure function of (seed, property, profile).
    virtual Plan generate(uint64_t seed,
                          const std::string& property,
                          const std::string& profile) = 0;
    // Runs in a forked child with the result fd installed.  Must call
    // sim::begin_run(sched_of(plan)).  Returning normally means "ok".
    virtual void execute(const Plan& plan) = 0;
    // Plan of run `idx` of a profile.  `pbase` is the check's seed mixed with
    // property and profile.  The default derives an independent run seed; a
    // harness may override it to ENUMERATE a dimension systematically over
    // consecutive run indices (e.g. every fault ordinal of one configuration).
    virtual Plan generate_run(uint64_t pbase, uint64_t idx,
                              const std::string& property,
                              const std::string& profile)
    {
        return generate(mix64(pbase, idx), property, profile);
    }
    // how many runs one child process executes (micro-runs are batched)
    virtual int batch(const std::string& property) const { return 1; }
    virtual int batch(const std::string& property,
                      const std::string& profile) const
    {
        (void)profile;
        return batch(property);
    }
    // non-triviality rule over a finished run's probes
    virtual bool nontrivial(const std::string& property,
                            const std::map<std::string, uint64_t>& probes) const
    {
        (void)property;
        (void)probes;
        return true;
    }
    virtual std::vector<ShrinkKey> shrink_keys() const { return {}; }
    // once-per-process initialisation in the zygote (before any fork)
    virtual void zygote_init() {}
};

Harness*
find_harness(const std::string& name);
void
register_harness(Harness* h);

// ------------------------------------------------------------ oracle gate
// An oracle id is "<property>.<name>".  If it belongs to the property whose
// check is running (or to no property: crash/deadlock), the run ends with a
// violation.  Otherwise the observation is counted under other.<id> and the
// run ends quietly (the state after a foreign violation is not worth
// exploring).
void
set_active_property(const std::string& p);
const std::string&
active_property();
void
oracle_fail(const char* oracle_id, const char* fmt, ...)
  __attribute__((format(printf, 2, 3)));
// true if oracle_id gates the current check
bool
oracle_gates(const char* oracle_id);

} // namespace sim
