// Deterministic simulation kernel: real pthreads, exactly one unparked at a
// time; every scheduling decision, delay and fault comes from one seeded PRNG
// or from a recorded schedule.  See DESIGN.md section 2.
#pragma once
#include <stdint.h>
#include <stddef.h>
#include <string>
#include <vector>
#include <map>
#include <functional>

namespace sim {

// ---------------------------------------------------------------- PRNG
struct Rng
{
    uint64_t s;
    explicit Rng(uint64_t seed = 1)
      : s(seed)
    {
    }
    uint64_t next()
    {
        uint64_t z = (s += 0x9E3779B97F4A7C15ull);
        z = (z ^ (z >> 30)) * 0xBF58476D1CE4E5B9ull;
        z = (z ^ (z >> 27)) * 0x94D049BB133111EBull;
        return z ^ (z >> 31);
    }
    // uniform in [0,n)
    uint64_t below(uint64_t n) { return n ? next() % n : 0; }
    // uniform in [lo,hi]
    int64_t range(int64_t lo, int64_t hi)
    {
        return lo + (int64_t)below((uint64_t)(hi - lo + 1));
    }
    bool chance(double p)
    {
        return (double)(next() >> 11) * (1.0 / 9007199254740992.0) < p;
    }
    template<typename T>
    const T& pick(const std::vector<T>& v)
    {
        return v[below(v.size())];
    }
};

inline uint64_t
mix64(uint64_t a, uint64_t b)
{
    Rng r(a ^ (b * 0x9E3779B97F4A7C15ull) ^ 0x1234567);
    r.next();
    return r.next() ^ b;
}

// ------------------------------------------------------------ schedule
enum EvKind
{
    EV_SWITCH = 1,   // a = thread id to run
    EV_STALL = 2,    // a = ns to stall the current thread
    EV_SPURIOUS = 3, // a = thread id spuriously woken from cond wait
    EV_STARTDELAY = 4, // a = ns the newly created thread sleeps first
    EV_TIMEOUT = 5,    // a = thread id whose timed wait expires now (the
                       // clock jumps forward to its deadline)
};

struct SchedEvent
{
    uint64_t step;
    int kind;
    int64_t a;
};

enum Strategy
{
    ST_RW = 0,
    ST_STICKY = 1,
    ST_PCT = 2,
    ST_DEFAULT = 3, // never preempt unless blocked; lowest id next
};

struct SchedConfig
{
    uint64_t seed = 1;
    int strategy = ST_RW;
    double sticky_p = 0.9;
    int pct_depth = 2;
    uint64_t pct_est_steps = 2000;
    uint64_t quantum_ns = 1000;
    double p_stall = 0.0;
    double p_spurious = 0.0;
    double p_startdelay = 0.0;
    // probability that a thread which has evaluated its wait predicate and
    // called cond_wait is held (virtual time) before it is enqueued as a
    // waiter: the classic lost-wake-up window, made wide
    double p_prewait = 0.0;
    // probability per step that some timed wait expires at once (a forward
    // jump of the clock to its deadline); only drawn while timed waiters exist
    double p_timeout = 0.0;
    // fine flavour: probability that a cross-thread memory access preempts
    double p_access = 0.0;
    uint64_t max_stall_ns = 50000000ull;
    uint64_t step_cap = 2000000;
    bool replay = false;            // follow `events` instead of the PRNG
    std::vector<SchedEvent> events; // replay input
};

// ------------------------------------------------------------- results
struct RunResult
{
    std::string status; // ok | violation | inconclusive
    std::string cls;    // oracle id / crash class
    std::string detail;
    uint64_t fingerprint = 0;
    uint64_t steps = 0;
    uint64_t vtime_ns = 0;
    std::map<std::string, uint64_t> probes;
    std::vector<SchedEvent> sched; // realised non-default decisions
    std::vector<std::string> log_tail;
};

// --------------------------------------------------------------- kernel
// All functions below must be called from a simulated thread (or from the
// run's main thread after begin_run()).

void begin_run(const SchedConfig& cfg);
// Finish: fills result from kernel counters.  Must be called on thread 0.
void end_run(RunResult* out);

int spawn(const char* name, std::function<void()> fn); // returns sim tid
void join(int tid);
bool finished(int tid);
bool blocked(int tid); // true if not runnable (mutex/cond/join/sleep) or done
bool blocked_not_sleeping(int tid); // blocked on mutex/cond/join
int cond_waiters(); // threads inside cond_wait (enqueued or about to be)
const char* block_reason(int tid);
// Spuriously wakes thread `tid` if it sleeps on a condition variable (POSIX
// allows that at any time).  A harness uses it to tell "sleeping because the
// predicate is false" from "sleeping although the predicate is true" (a lost
// wake-up): a correct waiter re-checks and goes back to sleep.
bool poke_cond_waiter(int tid);
// threads created by the code under test through pthread_create that have not
// finished yet
int live_created_threads();
std::string live_created_thread_names();
int self();
int nthreads();

void yield_point(const char* what); // explicit preemption point
void sleep_ns(uint64_t ns);
// fine flavour: called for every instrumented memory access of the repo's C code
void on_access(const void* addr, unsigned size, bool is_write);
uint64_t now_ns();
uint64_t steps();

// Run other threads until `pred()` holds (evaluated between steps).  Returns
// false if nothing else can run (all other threads blocked/finished) and pred
// is still false.
bool run_until(std::function<bool()> pred, uint64_t max_steps = 200000);

// history / hashing / probes
void hist(const char* fmt, ...) __attribute__((format(printf, 1, 2)));
void hash_u64(uint64_t v);
void probe(const char* name, uint64_t n = 1);
uint64_t probe_value(const char* name);
void logline(const char* fmt, ...) __attribute__((format(printf, 1, 2)));

// terminate the run with a verdict (never returns): writes the result to the
// result fd and _exit()s the child.
[[noreturn]] void violation(const char* oracle, const char* fmt, ...)
  __attribute__((format(printf, 2, 3)));
[[noreturn]] void inconclusive(const char* why);
[[noreturn]] void finish_ok();

// liveness budgets: from now on `what` must be cleared within `steps`
// scheduling steps, else violation(oracle).
int expect_progress(const char* oracle, const char* what, uint64_t steps);
void progress_done(int handle);
// something productive happened (a frame moved, a thread finished): every
// active budget starts counting again.  Budgets thus bound the number of
// scheduling steps WITHOUT progress, not the length of a healthy run.
void progress_kick();

// deadlock policy: what to do when every thread is blocked and no timer is
// pending.  Default: violation("deadlock").  A harness may install a hook that
// decides (e.g. C03 consults its model) – the hook must not return if it
// reports; if it returns true the kernel treats the situation as handled
// (the hook made some thread runnable), else default.
void set_deadlock_hook(std::function<bool(const std::string& graph)> hook);
// called (from whichever thread runs the scheduler) each time nothing is
// runnable and the clock is about to jump to the next deadline: every thread
// is blocked or asleep.  The hook may read model state and raise a violation;
// it must not call simulated primitives.
void set_idle_hook(std::function<void()> hook);
void set_deadlock_oracle(const char* oracle_id);
// how budget/deadlock failures are reported (plan.cpp installs the oracle gate)
void set_fail_handler(void (*h)(const char*, const std::string&));
std::string wait_graph();

// where the result is written
void set_result_fd(int fd);
void set_sched_cfg_for_child(const SchedConfig& c);

// lost-signal probes etc
uint64_t counter(const char* name);

// test hook: count of broadcasts with zero waiters
} // namespace sim
