#include "seams.h"
#include <errno.h>
#include <sys/mman.h>
#include "harness.h"
#include "kernel.h"

#include <dlfcn.h>
#include <stdio.h>
#include <stdlib.h>
#include <string.h>

extern "C"
{
#include "runtime/channel.h"
    void real_channel_new(struct channel* self, size_t capacity);
    struct Driver* common_driver_init_v0(
      void (*reporter)(int, const char*, int, const char*, const char*));
}

namespace simdl {

struct Handle
{
    std::string name;
    Lib lib;
    bool open = false;
};

static std::map<std::string, Lib> g_libs;
static std::vector<Handle*> g_handles;
static uint64_t g_opens, g_closes;
static std::string g_err;

void
reset()
{
    for (auto* h : g_handles)
        delete h;
    g_handles.clear();
    g_libs.clear();
    g_opens = g_closes = 0;
    Lib c;
    c.present = true;
    c.has_entry = true;
    c.init = common_driver_init_v0;
    g_libs["acquire-driver-common"] = c;
}

void
reset_common(Lib* out)
{
    out->present = true;
    out->has_entry = true;
    out->init = common_driver_init_v0;
}

static struct Driver*
init_returns_null(void (*)(int, const char*, int, const char*, const char*))
{
    return nullptr;
}

init_fn
null_init()
{
    return init_returns_null;
}

void
set_lib(const std::string& name, const Lib& lib)
{
    g_libs[name] = lib;
}

uint64_t
opens()
{
    return g_opens;
}

uint64_t
closes()
{
    return g_closes;
}

int
open_handles()
{
    int n = 0;
    for (auto* h : g_handles)
        n += h->open;
    return n;
}

} // namespace simdl

namespace simseam {

size_t default_channel_cap = 1 << 20;
static std::vector<size_t> g_caps;
static size_t g_cap_idx;

void
set_channel_caps(const std::vector<size_t>& caps)
{
    g_caps = caps;
    g_cap_idx = 0;
}

// ---- guard allocator (see the extern "C" wrappers below)
struct GuardBlock
{
    char* base;
    size_t total;
    char* body;
    size_t body_len;
    size_t n;
    bool live;
};
static std::map<const void*, GuardBlock> g_guard;
static const size_t GUARD_BYTES = 1ull << 30;

#if defined(__SANITIZE_ADDRESS__)
extern "C" void
__asan_poison_memory_region(void const volatile* addr, size_t size);
#define GUARD_POISON(a, n) __asan_poison_memory_region((a), (n))
#else
#define GUARD_POISON(a, n) ((void)0)
#endif

// the g_guard_fail_in-th guarded allocation from now is refused once
static int g_guard_fail_in;
static bool g_guard_fail_fired;

void
guard_fail_nth(int k)
{
    g_guard_fail_in = k;
    g_guard_fail_fired = false;
}

bool
guard_fail_fired()
{
    return g_guard_fail_fired;
}

void*
guard_alloc(size_t align, size_t n)
{
    if (g_guard_fail_in > 0 && --g_guard_fail_in == 0) {
        g_guard_fail_fired = true;
        sim::probe("fault.guarded_allocation_refused");
        errno = ENOMEM;
        return nullptr;
    }
    const size_t page = 4096;
    if (align < 16)
        align = 16;
    size_t body_len = ((n ? n : 1) + page - 1) / page * page;
    size_t total = GUARD_BYTES + body_len + GUARD_BYTES;
    char* base = (char*)mmap(nullptr, total, PROT_NONE,
                             MAP_PRIVATE | MAP_ANONYMOUS | MAP_NORESERVE, -1, 0);
    if (base == (char*)MAP_FAILED)
        return nullptr;
    char* body = base + GUARD_BYTES;
    if (mprotect(body, body_len, PROT_READ | PROT_WRITE) != 0) {
        munmap(base, total);
        return nullptr;
    }
    size_t off = (body_len - n) & ~(align - 1);
    char* p = body + off;
    memset(body, 0xCD, body_len); // fresh memory is not zero
    GUARD_POISON(body, off);
    GUARD_POISON(p + n, body_len - off - n);
    g_guard[p] = GuardBlock{ base, total, body, body_len, n, true };
    sim::probe("n.guard_allocs");
    return p;
}

size_t
guard_size(const void* p)
{
    auto it = g_guard.find(p);
    return it == g_guard.end() || !it->second.live ? (size_t)-1 : it->second.n;
}

void
guard_free(void* p)
{
    if (!p)
        return;
    auto it = g_guard.find(p);
    if (it == g_guard.end()) {
        free(p); // not ours (ASan reports a bad free)
        return;
    }
    if (!it->second.live)
        sim::violation("crash:double-free:guard_free",
                       "a block of the guarded module is freed twice");
    it->second.live = false;
    mprotect(it->second.body, it->second.body_len, PROT_NONE);
}

struct Block
{
    size_t size;
};
static bool g_track;
static std::map<const void*, Block> g_live;
static uint64_t g_allocs, g_frees;
// allocation failure: the g_fail_in-th tracked allocation from now fails once
static int g_fail_in;
static int g_fail_fired; // 0 no, 1 malloc/calloc, 2 realloc

void
track_fail_nth(int k)
{
    g_fail_in = k;
    g_fail_fired = 0;
}

int
track_fail_fired()
{
    return g_fail_fired;
}

static bool
fail_now(int kind)
{
    if (!g_track || g_fail_in <= 0)
        return false;
    if (--g_fail_in > 0)
        return false;
    g_fail_fired = kind;
    return true;
}

void
track_reset(bool enable)
{
    g_track = enable;
    g_live.clear();
    g_allocs = g_frees = 0;
}

size_t
track_live_blocks()
{
    return g_live.size();
}

size_t
track_live_bytes()
{
    size_t n = 0;
    for (auto& kv : g_live)
        n += kv.second.size;
    return n;
}

uint64_t
track_allocs()
{
    return g_allocs;
}

uint64_t
track_frees()
{
    return g_frees;
}

bool
track_is_live(const void* p)
{
    return g_live.count(p) != 0;
}

size_t
track_size(const void* p)
{
    auto it = g_live.find(p);
    return it == g_live.end() ? 0 : it->second.size;
}

} // namespace simseam

using namespace simdl;
using namespace simseam;

extern "C"
{

    // ------------------------------------------------------------ dl seam
    void* sim_dlopen(const char* path, int)
    {
        ++g_opens;
        std::string p = path ? path : "";
        size_t s = p.rfind("/lib");
        size_t e = p.rfind(".so");
        std::string name = (s != std::string::npos && e != std::string::npos &&
                            e > s + 4)
                             ? p.substr(s + 4, e - s - 4)
                             : p;
        auto it = g_libs.find(name);
        if (it == g_libs.end() || !it->second.present) {
            g_err = p + ": cannot open shared object file: No such file or "
                        "directory";
            sim::probe("n.dlopen_absent");
            return nullptr;
        }
        Handle* h = new Handle();
        h->name = name;
        h->lib = it->second;
        h->open = true;
        g_handles.push_back(h);
        sim::probe("n.dlopen_ok");
        return h;
    }

    void* sim_dlsym(void* handle, const char* sym)
    {
        Handle* h = (Handle*)handle;
        if (!h || !h->open) {
            g_err = "invalid handle";
            return nullptr;
        }
        if (sym && strcmp(sym, "acquire_driver_init_v0") == 0 &&
            h->lib.has_entry && h->lib.init)
            return (void*)h->lib.init;
        g_err = std::string("undefined symbol: ") + (sym ? sym : "(null)");
        sim::probe("n.dlsym_missing");
        return nullptr;
    }

    int sim_dlclose(void* handle)
    {
        ++g_closes;
        Handle* h = (Handle*)handle;
        bool known = false;
        for (auto* x : g_handles)
            known |= (x == h);
        if (!known || !h->open) {
            sim::oracle_fail("C12.dlclose_invalid_handle",
                             "dlclose on a handle that is not open (closed "
                             "twice or never opened)");
            return -1;
        }
        h->open = false;
        return 0;
    }

    char* sim_dlerror(void)
    {
        static char buf[512];
        snprintf(buf, sizeof(buf), "%s", g_err.c_str());
        return buf;
    }

    int sim_dladdr(const void*, Dl_info* info)
    {
        memset(info, 0, sizeof(*info));
        info->dli_fname = "/sim/bin/acquire-app";
        return 1;
    }

    char* sim_realpath(const char* path, char* resolved)
    {
        if (resolved) {
            strcpy(resolved, path);
            return resolved;
        }
        return strdup(path);
    }

    // ------------------------------------------------------ ring capacity
    void channel_new(struct channel* self, size_t capacity)
    {
        size_t cap = capacity;
        if (g_cap_idx < g_caps.size() && g_caps[g_cap_idx])
            cap = g_caps[g_cap_idx];
        else if (capacity > default_channel_cap)
            cap = default_channel_cap;
        ++g_cap_idx;
        real_channel_new(self, cap);
    }

    // -------------------------------------------------- allocation shim
    void* sim_malloc(size_t n)
    {
        if (simseam::fail_now(1)) {
            errno = ENOMEM;
            return nullptr;
        }
        void* p = malloc(n);
        if (g_track && p) {
            g_live[p] = Block{ n };
            ++g_allocs;
        }
        return p;
    }

    void* sim_calloc(size_t a, size_t b)
    {
        if (simseam::fail_now(1)) {
            errno = ENOMEM;
            return nullptr;
        }
        void* p = calloc(a, b);
        if (g_track && p) {
            g_live[p] = Block{ a * b };
            ++g_allocs;
        }
        return p;
    }

    void* sim_realloc(void* q, size_t n)
    {
        if (g_track && q) {
            if (!g_live.count(q))
                sim::oracle_fail("C13.realloc_of_unowned_block",
                                 "realloc of a pointer that is not a live "
                                 "allocation of the properties module");
        }
        if (simseam::fail_now(2)) {
            errno = ENOMEM; // the old block stays allocated
            return nullptr;
        }
        void* p = realloc(q, n);
        if (g_track) {
            if (p) {
                if (q)
                    g_live.erase(q);
                g_live[p] = Block{ n };
                ++g_allocs;
            }
        }
        return p;
    }

    void sim_free(void* p)
    {
        if (g_track && p) {
            auto it = g_live.find(p);
            if (it == g_live.end())
                sim::oracle_fail("C13.free_of_unowned_block",
                                 "free of a pointer that is not a live "
                                 "allocation of the properties module (double "
                                 "free or foreign pointer)");
            g_live.erase(it);
            ++g_frees;
        }
        free(p);
    }

    // ------------------------------------------------ guard allocator
    // Every block lives in its own mapping between two 1 GiB inaccessible
    // guards, its end as close to the upper guard as the alignment allows;
    // the slack inside the mapped pages is ASan-poisoned; a freed block stays
    // inaccessible for ever.  Out-of-bounds and use-after-free accesses to
    // such a block are therefore reported at the same instruction whatever
    // the state of the heap (ASan's own redzones only catch accesses that
    // land next to the block, and what lies further depends on the process's
    // allocation history, which differs between a worker and a replay).
    void* sim_guard_aligned_alloc(size_t align, size_t n)
    {
        return simseam::guard_alloc(align ? align : 16, n);
    }
    void* sim_guard_malloc(size_t n) { return simseam::guard_alloc(16, n); }
    void* sim_guard_calloc(size_t a, size_t b)
    {
        if (b && a > SIZE_MAX / b)
            return nullptr;
        void* p = simseam::guard_alloc(16, a * b);
        if (p)
            memset(p, 0, a * b);
        return p;
    }
    int sim_guard_posix_memalign(void** out, size_t align, size_t n)
    {
        void* p = simseam::guard_alloc(align, n);
        if (!p)
            return ENOMEM;
        *out = p;
        return 0;
    }
    void sim_guard_free(void* p) { simseam::guard_free(p); }
    void* sim_guard_realloc(void* q, size_t n)
    {
        if (!q)
            return simseam::guard_alloc(16, n);
        size_t old = simseam::guard_size(q);
        if (old == (size_t)-1)
            return realloc(q, n); // not ours
        void* p = simseam::guard_alloc(16, n);
        if (p) {
            memcpy(p, q, old < n ? old : n);
            simseam::guard_free(q);
        }
        return p;
    }

} // extern "C"
