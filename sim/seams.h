// Link-time seams other than threads/clock/files: shared-library loading,
// ring capacity, allocation tracking.  DESIGN.md section 1.1.
#pragma once
#include <stddef.h>
#include <stdint.h>
#include <string>
#include <vector>
#include <map>

struct Driver;

namespace simdl {

typedef struct Driver* (*init_fn)(void (*reporter)(int, const char*, int,
                                                   const char*, const char*));

struct Lib
{
    bool present = false;
    bool has_entry = true;
    init_fn init = nullptr;
};

void
reset(); // common driver present, everything else absent
// the real common driver (statically linked, entry point renamed)
void
reset_common(Lib* out);
// an entry point that fails to initialise (returns NULL)
init_fn
null_init();
void
set_lib(const std::string& name, const Lib& lib);
uint64_t
opens();
uint64_t
closes();
int
open_handles();

} // namespace simdl

namespace simseam {

// capacities handed to successive channel_new() calls (acquire_init creates
// sink0, filter0, sink1, filter1 in that order); 0 / exhausted = default
void
set_channel_caps(const std::vector<size_t>& caps);
extern size_t default_channel_cap;

// allocation tracking for objects whose malloc family was renamed
void
track_reset(bool enable);
size_t
track_live_blocks();
size_t
track_live_bytes();
uint64_t
track_allocs();
uint64_t
track_frees();
bool
track_is_live(const void* p);
size_t
track_size(const void* p);
// allocation failure: the k-th tracked allocation from now returns NULL once
// (0 disarms); fired = 0 no, 1 malloc/calloc, 2 realloc
void
track_fail_nth(int k);
int
track_fail_fired();

// guard allocator behind the simulated camera's malloc family
void*
guard_alloc(size_t align, size_t n);
// the k-th guarded allocation from now returns NULL once (0 disarms)
void
guard_fail_nth(int k);
bool
guard_fail_fired();
void
guard_free(void* p);
size_t
guard_size(const void* p); // (size_t)-1 if not a live guarded block

} // namespace simseam
