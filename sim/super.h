// Supervisor: worker pool, result aggregation, shrinking, replay gate,
// evidence writer.
#pragma once
#include "harness.h"

namespace sim {

struct ProfileSpec
{
    std::string name;
    uint64_t quick_runs;
    uint64_t thorough_runs;
    bool faults; // fault-injecting class (reported separately)
};

struct CheckSpec
{
    std::string property;
    std::string harness;
    std::string level; // exploration | fault_enumeration
    std::string design_ref;
    std::string rule;
    std::string technique;
    std::vector<ProfileSpec> profiles;
    std::vector<std::string> real_components;
    std::vector<std::string> stub_components;
    std::vector<std::string> assumptions;
    // probes that should be non-zero in a healthy batch (reach warnings)
    std::vector<std::string> reach_probes;
};

void
register_check(const CheckSpec& c);
const CheckSpec*
find_check(const std::string& property);
const std::vector<CheckSpec>&
all_checks();

int
super_main(int argc, char** argv);

} // namespace sim
