// Deterministic simulation kernel (see kernel.h, DESIGN.md section 2).
#include "kernel.h"
#include <signal.h>
#include <sys/time.h>
#include <errno.h>

#include <errno.h>
#include <linux/futex.h>
#include <pthread.h>
#include <stdarg.h>
#include <stdio.h>
#include <stdlib.h>
#include <string.h>
#include <sys/syscall.h>
#include <time.h>
#include <unistd.h>

#include <algorithm>

namespace sim {

enum TState
{
    T_RUNNABLE,
    T_BLK_MUTEX,
    T_BLK_COND,
    T_BLK_JOIN,
    T_SLEEPING,
    T_IDLE, // runs only when nobody else is runnable (driver waiting)
    T_DONE,
};

struct Thread
{
    int id = 0;
    std::string name;
    TState state = T_RUNNABLE;
    void* wait_obj = nullptr; // mutex or cond
    int wait_tid = -1;        // join target
    uint64_t deadline = 0;
    int wake = 0; // futex word
    pthread_t real{};
    bool has_real = false;
    bool real_joined = false;
    std::function<void()> fn;
    void* (*cfn)(void*) = nullptr;
    void* carg = nullptr;
    int64_t prio = 0;
    uint64_t consec = 0;
    uint64_t last_ran = 0; // step at which it was last chosen
    bool spurious = false;
    bool in_prewait = false;
    bool timed = false;    // cond wait with a deadline (Thread::deadline)
    bool timedout = false; // ... which has expired
    uint64_t start_delay = 0;
};

struct Budget
{
    int handle;
    std::string oracle, what;
    uint64_t deadline_step;
    bool active;
    uint64_t span;
};

struct Kernel
{
    bool active = false;
    SchedConfig cfg;
    Rng rng{ 1 };
    std::vector<Thread*> threads;
    int current = 0;
    uint64_t step = 0;
    uint64_t now = 0;
    uint64_t fp = 1469598103934665603ull;
    std::vector<SchedEvent> recorded;
    size_t replay_cursor = 0;
    std::map<std::string, uint64_t> probes;
    std::vector<std::string> logring;
    size_t logpos = 0;
    std::vector<Budget> budgets;
    int next_budget = 1;
    int result_fd = -1;
    std::function<bool(const std::string&)> deadlock_hook;
    std::function<void()> idle_hook;
    std::string deadlock_oracle = "deadlock";
    std::vector<uint64_t> pct_change_points;
    int64_t pct_low = -1;
    bool finishing = false;
    void (*budget_fail)(const char*, const std::string&) = nullptr;
};

// ---- fine flavour: location -> last accessing thread (precise, never
// evicting; keyed by 8-byte granule).  Nothing that consumes the PRNG depends
// on the addresses themselves.
struct AccessTable
{
    std::vector<uint64_t> keys; // granule+1, 0 = empty
    std::vector<int32_t> val;   // tid*2 + was_write
    size_t used = 0;
    void clear()
    {
        keys.assign(1 << 14, 0);
        val.assign(1 << 14, 0);
        used = 0;
    }
    void grow()
    {
        std::vector<uint64_t> ok;
        std::vector<int32_t> ov;
        ok.swap(keys);
        ov.swap(val);
        keys.assign(ok.size() * 2, 0);
        val.assign(ok.size() * 2, 0);
        used = 0;
        for (size_t i = 0; i < ok.size(); ++i)
            if (ok[i])
                *slot(ok[i] - 1) = ov[i];
    }
    int32_t* slot(uint64_t g)
    {
        size_t mask = keys.size() - 1;
        size_t i = (size_t)((g * 0x9E3779B97F4A7C15ull) >> 20) & mask;
        while (keys[i] && keys[i] != g + 1)
            i = (i + 1) & mask;
        if (!keys[i]) {
            keys[i] = g + 1;
            val[i] = -1;
            ++used;
        }
        return &val[i];
    }
};

static Kernel K;
static AccessTable AT;
static bool g_access_yield = false;
static thread_local Thread* tl_self = nullptr;

static const size_t LOGRING = 120;

// ----------------------------------------------------------------- futex
static void
park(Thread* t)
{
    while (__atomic_load_n(&t->wake, __ATOMIC_ACQUIRE) == 0)
        syscall(SYS_futex, &t->wake, FUTEX_WAIT_PRIVATE, 0, 0, 0, 0);
    __atomic_store_n(&t->wake, 0, __ATOMIC_RELAXED);
}

static void
wake(Thread* t)
{
    __atomic_store_n(&t->wake, 1, __ATOMIC_RELEASE);
    syscall(SYS_futex, &t->wake, FUTEX_WAKE_PRIVATE, 1, 0, 0, 0);
}

// --------------------------------------------------------------- hashing
static inline void
fp_bytes(const void* p, size_t n)
{
    const unsigned char* c = (const unsigned char*)p;
    uint64_t h = K.fp;
    for (size_t i = 0; i < n; ++i) {
        h ^= c[i];
        h *= 1099511628211ull;
    }
    K.fp = h;
}

void
hash_u64(uint64_t v)
{
    uint64_t h = K.fp;
    h ^= v;
    h *= 1099511628211ull;
    h ^= h >> 29;
    K.fp = h;
}

static void
ring_push(const char* s)
{
    if (K.logring.size() < LOGRING)
        K.logring.emplace_back(s);
    else {
        K.logring[K.logpos] = s;
        K.logpos = (K.logpos + 1) % LOGRING;
    }
}

void
hist(const char* fmt, ...)
{
    char buf[512];
    va_list ap;
    va_start(ap, fmt);
    int n = vsnprintf(buf, sizeof(buf), fmt, ap);
    va_end(ap);
    if (n < 0)
        n = 0;
    if ((size_t)n >= sizeof(buf))
        n = sizeof(buf) - 1;
    fp_bytes(buf, (size_t)n);
    char line[600];
    snprintf(line,
             sizeof(line),
             "[%llu t%d] %s",
             (unsigned long long)K.step,
             tl_self ? tl_self->id : -1,
             buf);
    ring_push(line);
}

void
logline(const char* fmt, ...)
{
    char buf[512];
    va_list ap;
    va_start(ap, fmt);
    vsnprintf(buf, sizeof(buf), fmt, ap);
    va_end(ap);
    char line[600];
    snprintf(line,
             sizeof(line),
             "[%llu t%d] %s",
             (unsigned long long)K.step,
             tl_self ? tl_self->id : -1,
             buf);
    ring_push(line);
}

void
probe(const char* name, uint64_t n)
{
    K.probes[name] += n;
}

uint64_t
probe_value(const char* name)
{
    auto it = K.probes.find(name);
    return it == K.probes.end() ? 0 : it->second;
}

uint64_t
counter(const char* name)
{
    return probe_value(name);
}

// --------------------------------------------------------------- results
static void
sanitize(std::string& s)
{
    for (auto& c : s)
        if (c == '\n' || c == '\r')
            c = ' ';
}

static void
write_all(int fd, const std::string& s)
{
    const char* p = s.data();
    size_t n = s.size();
    while (n) {
        ssize_t w = ::write(fd, p, n);
        if (w <= 0) {
            if (errno == EINTR)
                continue;
            break;
        }
        p += w;
        n -= (size_t)w;
    }
}

static void
emit_result(const char* status, const std::string& cls_, const std::string& d_)
{
    if (K.result_fd < 0)
        return;
    std::string cls = cls_, d = d_;
    sanitize(cls);
    sanitize(d);
    std::string out;
    char b[256];
    snprintf(b,
             sizeof(b),
             "R status=%s fp=%016llx steps=%llu vtime=%llu nthreads=%zu\n",
             status,
             (unsigned long long)K.fp,
             (unsigned long long)K.step,
             (unsigned long long)K.now,
             K.threads.size());
    out += b;
    out += "C " + cls + "\n";
    out += "D " + d + "\n";
    for (auto& kv : K.probes) {
        snprintf(b, sizeof(b), "P %s %llu\n", kv.first.c_str(),
                 (unsigned long long)kv.second);
        out += b;
    }
    out += "S";
    for (auto& e : K.recorded) {
        snprintf(b, sizeof(b), " %llu:%d:%lld", (unsigned long long)e.step,
                 e.kind, (long long)e.a);
        out += b;
    }
    out += "\n";
    size_t n = K.logring.size();
    for (size_t i = 0; i < n; ++i) {
        std::string l = K.logring[(K.logpos + i) % n];
        sanitize(l);
        out += "L " + l + "\n";
    }
    out += "E\n";
    write_all(K.result_fd, out);
}

void
set_result_fd(int fd)
{
    K.result_fd = fd;
}

// A run that dies of a sanitizer report or a signal still hands over the
// schedule it realised, so that the crash can be replayed (the crash text
// itself travels on stderr).
static void
crash_emit()
{
    static volatile int once;
    if (once || K.result_fd < 0 || !K.active)
        return;
    once = 1;
    std::string out;
    char b[128];
    snprintf(b, sizeof(b), "K %016llx %llu %llu\nS",
             (unsigned long long)K.fp, (unsigned long long)K.step,
             (unsigned long long)K.now);
    out += b;
    for (auto& e : K.recorded) {
        snprintf(b, sizeof(b), " %llu:%d:%lld", (unsigned long long)e.step,
                 e.kind, (long long)e.a);
        out += b;
    }
    out += "\n";
    write_all(K.result_fd, out);
}

static void
crash_signal(int sig)
{
    crash_emit();
    signal(sig, SIG_DFL);
    raise(sig);
}

extern "C" void
__sanitizer_set_death_callback(void (*cb)(void)) __attribute__((weak));

static void
install_crash_hooks()
{
    static bool done;
    if (done)
        return;
    done = true;
    if (__sanitizer_set_death_callback)
        __sanitizer_set_death_callback(crash_emit);
    else {
        signal(SIGSEGV, crash_signal);
        signal(SIGBUS, crash_signal);
        signal(SIGFPE, crash_signal);
        signal(SIGILL, crash_signal);
        signal(SIGABRT, crash_signal);
    }
}

[[noreturn]] static void
die_with(const char* status, const std::string& cls, const std::string& d)
{
    K.finishing = true;
    emit_result(status, cls, d);
    _exit(0);
}

void
violation(const char* oracle, const char* fmt, ...)
{
    char buf[2048];
    va_list ap;
    va_start(ap, fmt);
    vsnprintf(buf, sizeof(buf), fmt, ap);
    va_end(ap);
    die_with("violation", oracle, buf);
}

void
inconclusive(const char* why)
{
    die_with("inconclusive", why, "");
}

void
finish_ok()
{
    die_with("ok", "", "");
}

void
end_run(RunResult* out)
{
    out->status = "ok";
    out->fingerprint = K.fp;
    out->steps = K.step;
    out->vtime_ns = K.now;
    out->probes = K.probes;
    out->sched = K.recorded;
}

// --------------------------------------------------------------- helpers
static const char*
state_name(TState s)
{
    switch (s) {
        case T_RUNNABLE:
            return "runnable";
        case T_BLK_MUTEX:
            return "mutex";
        case T_BLK_COND:
            return "cond";
        case T_BLK_JOIN:
            return "join";
        case T_SLEEPING:
            return "sleep";
        case T_IDLE:
            return "idle";
        case T_DONE:
            return "done";
    }
    return "?";
}

static inline int&
mutex_owner(pthread_mutex_t* m)
{
    return *(int*)m;
}

std::string
wait_graph()
{
    std::string g;
    for (Thread* t : K.threads) {
        if (t->state == T_DONE)
            continue;
        char b[256];
        if (t->state == T_BLK_MUTEX) {
            int o = mutex_owner((pthread_mutex_t*)t->wait_obj) - 1;
            snprintf(b, sizeof(b), "%s:mutex(held by %s); ", t->name.c_str(),
                     (o >= 0 && o < (int)K.threads.size())
                       ? K.threads[o]->name.c_str()
                       : "?");
        } else if (t->state == T_BLK_JOIN) {
            snprintf(b, sizeof(b), "%s:join(%s); ", t->name.c_str(),
                     K.threads[t->wait_tid]->name.c_str());
        } else {
            snprintf(b, sizeof(b), "%s:%s; ", t->name.c_str(),
                     state_name(t->state));
        }
        g += b;
    }
    return g;
}

void
set_deadlock_hook(std::function<bool(const std::string&)> hook)
{
    K.deadlock_hook = std::move(hook);
}

void
set_idle_hook(std::function<void()> hook)
{
    K.idle_hook = std::move(hook);
}

void
set_deadlock_oracle(const char* id)
{
    K.deadlock_oracle = id;
}

void
set_fail_handler(void (*h)(const char*, const std::string&))
{
    K.budget_fail = h;
}

int
self()
{
    return tl_self ? tl_self->id : -1;
}

int
nthreads()
{
    return (int)K.threads.size();
}

uint64_t
now_ns()
{
    return K.now;
}

uint64_t
steps()
{
    return K.step;
}

bool
finished(int tid)
{
    return K.threads[tid]->state == T_DONE;
}

bool
blocked(int tid)
{
    return K.threads[tid]->state != T_RUNNABLE;
}

bool
blocked_not_sleeping(int tid)
{
    TState s = K.threads[tid]->state;
    return s == T_BLK_MUTEX || s == T_BLK_COND || s == T_BLK_JOIN;
}

int
cond_waiters()
{
    int n = 0;
    for (Thread* t : K.threads)
        if (t->state == T_BLK_COND || (t->in_prewait && t->state != T_DONE))
            ++n;
    return n;
}

int
live_created_threads()
{
    int n = 0;
    for (Thread* t : K.threads)
        if (t->cfn && t->state != T_DONE)
            ++n;
    return n;
}

std::string
live_created_thread_names()
{
    std::string s;
    for (Thread* t : K.threads)
        if (t->cfn && t->state != T_DONE)
            s += t->name + ":" + state_name(t->state) + " ";
    return s;
}

bool
poke_cond_waiter(int tid)
{
    Thread* t = K.threads[tid];
    if (t->state != T_BLK_COND)
        return false;
    t->state = T_RUNNABLE;
    t->spurious = true;
    probe("k.pokes");
    return true;
}

const char*
block_reason(int tid)
{
    return state_name(K.threads[tid]->state);
}

// ------------------------------------------------------------- scheduler
static void
record(int kind, int64_t a)
{
    K.recorded.push_back(SchedEvent{ K.step, kind, a });
    hash_u64(((uint64_t)kind << 56) ^ (uint64_t)a ^ (K.step << 20));
}

static void
wake_sleepers()
{
    for (Thread* t : K.threads) {
        if (t->state == T_SLEEPING && t->deadline <= K.now)
            t->state = T_RUNNABLE;
        if (t->state == T_BLK_COND && t->timed && t->deadline <= K.now) {
            t->state = T_RUNNABLE;
            t->timedout = true;
        }
    }
}

static uint64_t
random_stall(Rng& r, uint64_t mx)
{
    // log-uniform between 1us and mx
    double lo = 1000.0, hi = (double)mx;
    if (hi < lo)
        hi = lo;
    double u = (double)(r.next() >> 11) * (1.0 / 9007199254740992.0);
    double v = lo * __builtin_pow(hi / lo, u);
    return (uint64_t)v;
}

static void
check_budgets()
{
    for (auto& b : K.budgets) {
        if (b.active && K.step > b.deadline_step) {
            std::string g = wait_graph();
            K.budget_fail(b.oracle.c_str(),
                          "no progress: '" + b.what +
                            "' not completed within step budget; threads: " + g);
        }
    }
}

int
expect_progress(const char* oracle, const char* what, uint64_t steps_)
{
    Budget b{ K.next_budget++, oracle, what, K.step + steps_, true, steps_ };
    K.budgets.push_back(b);
    return b.handle;
}

void
progress_kick()
{
    for (auto& b : K.budgets)
        if (b.active)
            b.deadline_step = K.step + b.span;
}

void
progress_done(int handle)
{
    for (auto& b : K.budgets)
        if (b.handle == handle)
            b.active = false;
}

// Picks the next thread to run and transfers control.  The caller has already
// set its own state (RUNNABLE when merely yielding).  `exiting` = the caller's
// real thread is about to return and must not park.
static uint64_t g_trace_from =
  getenv("VSIM_TRACE_FROM") ? strtoull(getenv("VSIM_TRACE_FROM"), 0, 10) : 0;

static void
reschedule(bool exiting)
{
    Thread* me = tl_self;
    ++K.step;
    K.now += K.cfg.quantum_ns;
    if (K.step > K.cfg.step_cap) {
        // a livelock inside a liveness window is reported by check_budgets
        check_budgets();
        inconclusive("step_cap");
    }
    if (!K.budgets.empty())
        check_budgets();
    wake_sleepers();

    Thread* forced = nullptr;
    bool have_forced = false;

    if (K.cfg.replay) {
        while (K.replay_cursor < K.cfg.events.size() &&
               K.cfg.events[K.replay_cursor].step < K.step)
            ++K.replay_cursor;
        while (K.replay_cursor < K.cfg.events.size() &&
               K.cfg.events[K.replay_cursor].step == K.step) {
            const SchedEvent& e = K.cfg.events[K.replay_cursor++];
            if (e.kind == EV_SPURIOUS) {
                if (e.a >= 0 && e.a < (int64_t)K.threads.size() &&
                    K.threads[e.a]->state == T_BLK_COND) {
                    K.threads[e.a]->state = T_RUNNABLE;
                    K.threads[e.a]->spurious = true;
                    record(EV_SPURIOUS, e.a);
                    probe("k.spurious_wakeups");
                }
            } else if (e.kind == EV_STALL) {
                if (me->state == T_RUNNABLE && !exiting) {
                    me->state = T_SLEEPING;
                    me->deadline = K.now + (uint64_t)e.a;
                    record(EV_STALL, e.a);
                    probe("k.stalls");
                }
            } else if (e.kind == EV_TIMEOUT) {
                if (e.a >= 0 && e.a < (int64_t)K.threads.size() &&
                    K.threads[e.a]->state == T_BLK_COND &&
                    K.threads[e.a]->timed) {
                    if (K.threads[e.a]->deadline > K.now)
                        K.now = K.threads[e.a]->deadline;
                    wake_sleepers();
                    record(EV_TIMEOUT, e.a);
                    probe("k.early_timeouts");
                }
            } else if (e.kind == EV_SWITCH) {
                if (e.a >= 0 && e.a < (int64_t)K.threads.size()) {
                    forced = K.threads[e.a];
                    have_forced = true;
                }
            }
        }
    } else {
        if (K.cfg.p_spurious > 0) {
            int nc = 0;
            for (Thread* t : K.threads)
                nc += (t->state == T_BLK_COND);
            if (nc && K.rng.chance(K.cfg.p_spurious)) {
                int k = (int)K.rng.below((uint64_t)nc);
                for (Thread* t : K.threads)
                    if (t->state == T_BLK_COND && k-- == 0) {
                        t->state = T_RUNNABLE;
                        t->spurious = true;
                        record(EV_SPURIOUS, t->id);
                        probe("k.spurious_wakeups");
                        break;
                    }
            }
        }
        if (K.cfg.p_timeout > 0) {
            int nt = 0;
            for (Thread* t : K.threads)
                nt += (t->state == T_BLK_COND && t->timed);
            if (nt && K.rng.chance(K.cfg.p_timeout)) {
                int k = (int)K.rng.below((uint64_t)nt);
                for (Thread* t : K.threads)
                    if (t->state == T_BLK_COND && t->timed && k-- == 0) {
                        if (t->deadline > K.now)
                            K.now = t->deadline;
                        wake_sleepers();
                        record(EV_TIMEOUT, t->id);
                        probe("k.early_timeouts");
                        break;
                    }
            }
        }
        double ps = K.cfg.p_stall;
        if (me->in_prewait && K.cfg.p_prewait > ps)
            ps = K.cfg.p_prewait;
        if (ps > 0 && me->state == T_RUNNABLE && !exiting &&
            K.rng.chance(ps)) {
            if (me->in_prewait)
                probe("k.prewait_stalls");
            uint64_t d = random_stall(K.rng, K.cfg.max_stall_ns);
            me->state = T_SLEEPING;
            me->deadline = K.now + d;
            record(EV_STALL, (int64_t)d);
            probe("k.stalls");
        }
    }

    // runnable set
    Thread* cand[64];
    int n = 0;
    for (;;) {
        n = 0;
        for (Thread* t : K.threads)
            if (t->state == T_RUNNABLE && n < 64)
                cand[n++] = t;
        if (n)
            break;
        // an idle driver thread runs when nobody else can
        for (Thread* t : K.threads)
            if (t->state == T_IDLE) {
                t->state = T_RUNNABLE;
                cand[n++] = t;
                break;
            }
        if (n)
            break;
        // nothing runnable: jump the clock to the earliest deadline
        uint64_t best = UINT64_MAX;
        for (Thread* t : K.threads)
            if ((t->state == T_SLEEPING ||
                 (t->state == T_BLK_COND && t->timed)) &&
                t->deadline < best)
                best = t->deadline;
        if (best != UINT64_MAX) {
            // quiescent instant: every thread is blocked or asleep
            if (K.idle_hook)
                K.idle_hook();
            if (best > K.now)
                K.now = best;
            wake_sleepers();
            probe("k.clock_jumps");
            continue;
        }
        // deadlock
        std::string g = wait_graph();
        if (K.deadlock_hook && K.deadlock_hook(g))
            continue;
        K.budget_fail(K.deadlock_oracle.c_str(),
                      "deadlock: all threads blocked, no timer pending: " + g);
        // a foreign oracle: the handler ended the run quietly
    }

    Thread* dflt = (me->state == T_RUNNABLE && !exiting) ? me : cand[0];
    Thread* next = dflt;

    if (K.cfg.replay) {
        if (have_forced && forced->state == T_RUNNABLE)
            next = forced;
    } else if (n > 1 && g_access_yield && dflt == me &&
               !K.rng.chance(K.cfg.p_access)) {
        // a cross-thread memory access: a preemption point only with
        // probability p_access (there are very many of them)
        next = me;
    } else if (n > 1) {
        switch (K.cfg.strategy) {
            case ST_RW:
                next = cand[K.rng.below((uint64_t)n)];
                break;
            case ST_STICKY:
                if (dflt == me && K.rng.chance(K.cfg.sticky_p))
                    next = me;
                else
                    next = cand[K.rng.below((uint64_t)n)];
                break;
            case ST_PCT: {
                // priority change points
                for (uint64_t cp : K.pct_change_points)
                    if (cp == K.step && me->state != T_DONE)
                        me->prio = K.pct_low--;
                // fairness: demote a thread that monopolises the cpu
                if (me->state == T_RUNNABLE && me->consec > 300) {
                    me->prio = K.pct_low--;
                    me->consec = 0;
                    probe("k.pct_fair_demotions");
                }
                next = cand[0];
                for (int i = 1; i < n; ++i)
                    if (cand[i]->prio > next->prio)
                        next = cand[i];
                break;
            }
            default:
                break;
        }
    }
    if (!K.cfg.replay && n > 1) {
        // starvation guard (all strategies): a runnable thread that has not
        // been chosen for a long time runs now, so that polling loops of
        // favoured threads cannot starve the thread they are waiting for
        Thread* starved = nullptr;
        for (int i = 0; i < n; ++i)
            if (K.step - cand[i]->last_ran > 1500 &&
                (!starved || cand[i]->last_ran < starved->last_ran))
                starved = cand[i];
        if (starved && starved != next) {
            next = starved;
            probe("k.starvation_guard");
        }
    }
    if (g_trace_from && K.step >= g_trace_from) {
        static FILE* tf = fopen("/tmp/vsim.trace", "w");
        fprintf(tf, "step %llu me=%s(%s) next=%s n=%d now=%llu |",
                (unsigned long long)K.step, me->name.c_str(),
                state_name(me->state), next->name.c_str(), n,
                (unsigned long long)K.now);
        for (Thread* t : K.threads)
            if (t->state != T_DONE)
                fprintf(tf, " %s:%s:%llu", t->name.c_str(),
                        state_name(t->state), (unsigned long long)t->last_ran);
        fprintf(tf, "\n");
        fflush(tf);
    }
    next->last_ran = K.step;
    if (next != dflt)
        record(EV_SWITCH, next->id);
    if (next == me)
        me->consec++;
    else {
        me->consec = 0;
        probe("k.switches");
    }

    if (next == me)
        return;
    K.current = next->id;
    wake(next);
    if (!exiting)
        park(me);
}

void
yield_point(const char* what)
{
    (void)what;
    if (!K.active || K.finishing)
        return;
    reschedule(false);
}

void
on_access(const void* addr, unsigned size, bool is_write)
{
    (void)size;
    Thread* me = tl_self;
    if (!K.active || K.finishing || !me || K.cfg.p_access <= 0)
        return;
    if (AT.keys.empty())
        AT.clear();
    if (AT.used * 2 > AT.keys.size())
        AT.grow();
    int32_t* v = AT.slot((uint64_t)(uintptr_t)addr >> 3);
    int32_t prev = *v;
    *v = me->id * 2 + (is_write ? 1 : 0);
    if (prev < 0 || prev / 2 == me->id)
        return;
    if (!is_write && !(prev & 1))
        return; // read after another thread's read: no communication
    // communication between two threads through plain memory
    probe("k.cross_thread_accesses");
    g_access_yield = true;
    reschedule(false);
    g_access_yield = false;
}

void
sleep_ns(uint64_t ns)
{
    Thread* me = tl_self;
    me->state = T_SLEEPING;
    me->deadline = K.now + ns;
    reschedule(false);
}

bool
run_until(std::function<bool()> pred, uint64_t max_steps)
{
    Thread* me = tl_self;
    uint64_t start = K.step;
    while (!pred()) {
        if (K.step - start > max_steps)
            return false;
        bool other = false, sleeper = false;
        for (Thread* t : K.threads) {
            if (t == me)
                continue;
            if (t->state == T_RUNNABLE)
                other = true;
            if (t->state == T_SLEEPING)
                sleeper = true;
        }
        if (!other && !sleeper)
            return false;
        if (!other) {
            // let virtual time pass until the next sleeper wakes
            uint64_t best = UINT64_MAX;
            for (Thread* t : K.threads)
                if (t != me && t->state == T_SLEEPING && t->deadline < best)
                    best = t->deadline;
            me->state = T_SLEEPING;
            me->deadline = best;
            reschedule(false);
        } else {
            // others run until none of them is runnable any more
            me->state = T_IDLE;
            reschedule(false);
        }
    }
    return true;
}

// --------------------------------------------------------------- threads
static void*
trampoline(void* p)
{
    Thread* t = (Thread*)p;
    tl_self = t;
    park(t);
    if (t->start_delay) {
        uint64_t d = t->start_delay;
        t->start_delay = 0;
        sleep_ns(d);
    }
    if (t->cfn)
        t->cfn(t->carg);
    else
        t->fn();
    // exit: wake joiners
    t->state = T_DONE;
    progress_kick();
    for (Thread* o : K.threads)
        if (o->state == T_BLK_JOIN && o->wait_tid == t->id)
            o->state = T_RUNNABLE;
    reschedule(true);
    return nullptr;
}

static Thread*
new_thread(const char* name)
{
    Thread* t = new Thread();
    t->id = (int)K.threads.size();
    char b[64];
    if (name)
        t->name = name;
    else {
        snprintf(b, sizeof(b), "T%d", t->id);
        t->name = b;
    }
    t->last_ran = K.step;
    if (K.cfg.strategy == ST_PCT)
        t->prio = (int64_t)K.rng.below(1000000) + 1000;
    K.threads.push_back(t);
    return t;
}

static void
start_real(Thread* t)
{
    pthread_attr_t attr;
    pthread_attr_init(&attr);
    pthread_attr_setstacksize(&attr, 512 * 1024);
    int rc = pthread_create(&t->real, &attr, trampoline, t);
    pthread_attr_destroy(&attr);
    if (rc != 0) {
        fprintf(stderr, "sim: pthread_create failed: %d\n", rc);
        _exit(3);
    }
    t->has_real = true;
    if (K.cfg.replay) {
        // a start delay recorded for this step?
        for (size_t i = 0; i < K.cfg.events.size(); ++i) {
            const SchedEvent& e = K.cfg.events[i];
            if (e.step > K.step)
                break;
            if (e.step == K.step && e.kind == EV_STARTDELAY) {
                t->start_delay = (uint64_t)e.a;
                record(EV_STARTDELAY, e.a);
            }
        }
    } else if (K.cfg.p_startdelay > 0 && K.rng.chance(K.cfg.p_startdelay)) {
        t->start_delay = random_stall(K.rng, K.cfg.max_stall_ns);
        record(EV_STARTDELAY, (int64_t)t->start_delay);
        probe("k.start_delays");
    }
}

int
spawn(const char* name, std::function<void()> fn)
{
    Thread* t = new_thread(name);
    t->fn = std::move(fn);
    start_real(t);
    yield_point("spawn");
    return t->id;
}

static void
join_impl(int tid)
{
    Thread* me = tl_self;
    Thread* t = K.threads[tid];
    yield_point("join");
    while (t->state != T_DONE) {
        me->state = T_BLK_JOIN;
        me->wait_tid = tid;
        reschedule(false);
    }
    if (t->has_real && !t->real_joined) {
        pthread_join(t->real, nullptr);
        t->real_joined = true;
    }
}

void
join(int tid)
{
    join_impl(tid);
}

static void
default_fail(const char* oracle, const std::string& msg)
{
    violation(oracle, "%s", msg.c_str());
}

void
begin_run(const SchedConfig& cfg)
{
    if (!K.budget_fail)
        K.budget_fail = default_fail;
    install_crash_hooks();
    // reap threads of a previous run in this process (micro-run batching)
    for (Thread* t : K.threads) {
        if (t->has_real && !t->real_joined && t->state == T_DONE)
            pthread_join(t->real, nullptr);
        delete t;
    }
    K.threads.clear();
    K.cfg = cfg;
    K.rng = Rng(cfg.seed ^ 0x5eedc0de);
    K.current = 0;
    K.step = 0;
    K.now = 1000000000ull; // 1 s after "boot"
    K.fp = 1469598103934665603ull;
    K.recorded.clear();
    K.replay_cursor = 0;
    K.probes.clear();
    K.logring.clear();
    K.logpos = 0;
    K.budgets.clear();
    K.next_budget = 1;
    K.deadlock_hook = nullptr;
    K.idle_hook = nullptr;
    K.deadlock_oracle = "deadlock";
    K.pct_change_points.clear();
    K.pct_low = -1;
    K.finishing = false;
    if (cfg.p_access > 0)
        AT.clear();
    if (cfg.strategy == ST_PCT && !cfg.replay) {
        for (int i = 0; i < cfg.pct_depth; ++i)
            K.pct_change_points.push_back(
              1 + K.rng.below(cfg.pct_est_steps ? cfg.pct_est_steps : 1));
    }
    Thread* t0 = new_thread("main");
    tl_self = t0;
    K.active = true;
}

} // namespace sim

// ======================================================================
// Intercepted libc/pthread entry points (platform.o is linked against
// these through objcopy --redefine-syms).
// ======================================================================
using namespace sim;

extern "C"
{

    int sim_pthread_mutex_lock(pthread_mutex_t* m)
    {
        Thread* me = tl_self;
        if (!K.active || !me) {
            mutex_owner(m) = 1;
            return 0;
        }
        reschedule(false); // preemption point before acquiring
        // Being chosen only to find the mutex still held is not progress: the
        // starvation guard keeps counting from before the first attempt, so
        // that a waiter which a priority strategy passes over at every
        // release is eventually handed the mutex.
        const uint64_t waiting_since = me->last_ran;
        while (mutex_owner(m) != 0) {
            if (mutex_owner(m) == me->id + 1) {
                violation("self_deadlock",
                          "thread %s re-locks a mutex it already holds",
                          me->name.c_str());
            }
            me->state = T_BLK_MUTEX;
            me->wait_obj = m;
            probe("k.mutex_contended");
            reschedule(false);
            if (mutex_owner(m) != 0)
                me->last_ran = waiting_since;
        }
        mutex_owner(m) = me->id + 1;
        return 0;
    }

    int sim_pthread_mutex_trylock(pthread_mutex_t* m)
    {
        Thread* me = tl_self;
        if (!K.active || !me) {
            if (mutex_owner(m))
                return EBUSY;
            mutex_owner(m) = 1;
            return 0;
        }
        reschedule(false);
        if (mutex_owner(m) != 0)
            return EBUSY;
        mutex_owner(m) = me->id + 1;
        return 0;
    }

    static void release_mutex(pthread_mutex_t* m)
    {
        mutex_owner(m) = 0;
        for (Thread* t : K.threads)
            if (t->state == T_BLK_MUTEX && t->wait_obj == m)
                t->state = T_RUNNABLE;
    }

    int sim_pthread_mutex_unlock(pthread_mutex_t* m)
    {
        Thread* me = tl_self;
        if (!K.active || !me) {
            mutex_owner(m) = 0;
            return 0;
        }
        if (mutex_owner(m) != me->id + 1) {
            // POSIX: undefined for default mutexes; report as EPERM like an
            // error-checking mutex would, and count it.
            probe("k.unlock_not_owner");
            return EPERM;
        }
        release_mutex(m);
        reschedule(false); // preemption point after releasing
        return 0;
    }

    int sim_pthread_cond_wait(pthread_cond_t* c, pthread_mutex_t* m)
    {
        Thread* me = tl_self;
        if (!K.active || !me)
            return 0;
        // The window between "caller evaluated its predicate" and "caller is
        // enqueued": a signal sent without the mutex in this window is lost.
        me->in_prewait = true;
        reschedule(false);
        me->in_prewait = false;
        me->state = T_BLK_COND;
        me->wait_obj = c;
        me->spurious = false;
        release_mutex(m);
        probe("k.cond_waits");
        reschedule(false);
        // woken (broadcast or spurious): re-acquire the mutex
        const uint64_t waiting_since = me->last_ran;
        while (mutex_owner(m) != 0) {
            me->state = T_BLK_MUTEX;
            me->wait_obj = m;
            reschedule(false);
            if (mutex_owner(m) != 0)
                me->last_ran = waiting_since;
        }
        mutex_owner(m) = me->id + 1;
        return 0;
    }

    int sim_pthread_cond_broadcast(pthread_cond_t* c)
    {
        Thread* me = tl_self;
        if (!K.active || !me)
            return 0;
        int n = 0;
        for (Thread* t : K.threads)
            if (t->state == T_BLK_COND && t->wait_obj == c) {
                t->state = T_RUNNABLE;
                ++n;
            }
        if (n)
            probe("k.broadcast_with_waiters");
        else
            probe("k.broadcast_no_waiters");
        reschedule(false);
        return 0;
    }

    int sim_pthread_cond_signal(pthread_cond_t* c)
    {
        Thread* me = tl_self;
        if (!K.active || !me)
            return 0;
        // wake exactly one waiter, chosen by the scheduler's PRNG-independent
        // rule "lowest id" (the repo does not use signal; kept for
        // completeness)
        for (Thread* t : K.threads)
            if (t->state == T_BLK_COND && t->wait_obj == c) {
                t->state = T_RUNNABLE;
                break;
            }
        reschedule(false);
        return 0;
    }

    int sim_pthread_create(pthread_t* out,
                           const pthread_attr_t*,
                           void* (*fn)(void*),
                           void* arg)
    {
        if (!K.active || !tl_self) {
            fprintf(stderr, "sim: pthread_create outside a run\n");
            _exit(3);
        }
        if (K.threads.size() >= 60)
            return EAGAIN;
        Thread* t = new_thread(nullptr);
        t->cfn = fn;
        t->carg = arg;
        *out = (pthread_t)t->id;
        start_real(t);
        probe("k.threads_created");
        reschedule(false);
        return 0;
    }

    int sim_pthread_join(pthread_t h, void** ret)
    {
        if (ret)
            *ret = nullptr;
        int tid = (int)h;
        if (tid <= 0 || tid >= (int)K.threads.size()) {
            violation("bad_join", "pthread_join on invalid handle %d", tid);
        }
        if (K.threads[tid]->real_joined && K.threads[tid]->state == T_DONE) {
            // joining an already joined handle blocks forever on Linux
            violation("double_join",
                      "pthread_join on an already joined thread %s",
                      K.threads[tid]->name.c_str());
        }
        join_impl(tid);
        return 0;
    }

    int sim_clock_gettime(clockid_t, struct timespec* ts)
    {
        if (!K.active) {
            ts->tv_sec = 1;
            ts->tv_nsec = 0;
            return 0;
        }
        K.now += 1; // strictly increasing timestamps
        ts->tv_sec = (time_t)(K.now / 1000000000ull);
        ts->tv_nsec = (long)(K.now % 1000000000ull);
        return 0;
    }

    int sim_pthread_cond_timedwait(pthread_cond_t* c, pthread_mutex_t* m,
                                   const struct timespec* abst)
    {
        Thread* me = tl_self;
        if (!K.active || !me)
            return 0;
        uint64_t dl = (uint64_t)abst->tv_sec * 1000000000ull +
                      (uint64_t)abst->tv_nsec;
        me->in_prewait = true;
        reschedule(false);
        me->in_prewait = false;
        me->state = T_BLK_COND;
        me->wait_obj = c;
        me->spurious = false;
        me->timed = true;
        me->timedout = false;
        me->deadline = dl;
        release_mutex(m);
        probe("k.cond_timedwaits");
        reschedule(false);
        bool expired = me->timedout;
        me->timed = false;
        me->timedout = false;
        const uint64_t waiting_since = me->last_ran;
        while (mutex_owner(m) != 0) {
            me->state = T_BLK_MUTEX;
            me->wait_obj = m;
            reschedule(false);
            if (mutex_owner(m) != 0)
                me->last_ran = waiting_since;
        }
        mutex_owner(m) = me->id + 1;
        return expired ? ETIMEDOUT : 0;
    }

    int sim_usleep(unsigned usec)
    {
        if (K.active && tl_self)
            sleep_ns((uint64_t)usec * 1000ull);
        return 0;
    }

    unsigned sim_sleep(unsigned sec)
    {
        if (K.active && tl_self)
            sleep_ns((uint64_t)sec * 1000000000ull);
        return 0;
    }

    int sim_gettimeofday(struct timeval* tv, void*)
    {
        struct timespec ts;
        sim_clock_gettime(0, &ts);
        if (tv) {
            tv->tv_sec = ts.tv_sec;
            tv->tv_usec = ts.tv_nsec / 1000;
        }
        return 0;
    }

    time_t sim_time(time_t* out)
    {
        struct timespec ts;
        sim_clock_gettime(0, &ts);
        if (out)
            *out = ts.tv_sec;
        return ts.tv_sec;
    }

    int sim_nanosleep(const struct timespec* req, struct timespec* rem);
    int sim_clock_nanosleep(clockid_t, int flags, const struct timespec* req,
                            struct timespec* rem)
    {
        if (flags == 0)
            return sim_nanosleep(req, rem);
        // TIMER_ABSTIME
        if (K.active && tl_self) {
            uint64_t dl = (uint64_t)req->tv_sec * 1000000000ull +
                          (uint64_t)req->tv_nsec;
            if (dl > K.now)
                sleep_ns(dl - K.now);
        }
        return 0;
    }

    int sim_nanosleep(const struct timespec* req, struct timespec* rem)
    {
        (void)rem;
        if (!K.active || !tl_self)
            return 0;
        uint64_t ns =
          (uint64_t)req->tv_sec * 1000000000ull + (uint64_t)req->tv_nsec;
        probe("k.nanosleeps");
        sleep_ns(ns);
        return 0;
    }

} // extern "C"
