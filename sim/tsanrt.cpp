// Private ThreadSanitizer runtime for the `fine` flavour: the compiler calls
// these for every (not provably thread-local) memory access of the repo's C
// sources; instead of detecting races they report the access to the
// simulation kernel, which turns an access to a location last touched by a
// DIFFERENT thread into a preemption point.  DESIGN.md section 2.1.
#include "kernel.h"

#include <stddef.h>
#include <stdint.h>

namespace sim {
void
on_access(const void* addr, unsigned size, bool is_write);
}

extern "C"
{
    void __tsan_init(void) {}
    void __tsan_func_entry(void*) {}
    void __tsan_func_exit(void) {}
    void __tsan_vptr_update(void**, void*) {}
    void __tsan_vptr_read(void**) {}

#define RW(n)                                                                  \
    void __tsan_read##n(void* a) { sim::on_access(a, n, false); }              \
    void __tsan_write##n(void* a) { sim::on_access(a, n, true); }              \
    void __tsan_unaligned_read##n(void* a) { sim::on_access(a, n, false); }    \
    void __tsan_unaligned_write##n(void* a) { sim::on_access(a, n, true); }
    RW(1)
    RW(2)
    RW(4)
    RW(8)
    RW(16)
#undef RW
    void __tsan_read_range(void* a, long n)
    {
        (void)n;
        sim::on_access(a, 8, false);
    }
    void __tsan_write_range(void* a, long n)
    {
        (void)n;
        sim::on_access(a, 8, true);
    }
}
