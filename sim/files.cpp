#include "files.h"
#include "harness.h"
#include "kernel.h"

#include <algorithm>
#include <errno.h>
#include <fcntl.h>
#include <stdarg.h>
#include <stdio.h>
#include <stdlib.h>
#include <string.h>
#include <sys/file.h>
#include <sys/stat.h>
#include <unistd.h>

namespace simfs {

static const uint64_t CHUNK = 1ull << 20;
static const uint64_t SPARSE_LIMIT = 64ull << 20;

struct File
{
    std::vector<uint8_t> data;
    // sparse representation (data is empty then)
    bool sparse = false;
    uint64_t ssize = 0;
    std::map<uint64_t, std::vector<uint8_t>> chunks; // index -> CHUNK bytes
    int locked_by = -1; // fd holding the flock
    uint64_t gen = 0;

    uint64_t size() const { return sparse ? ssize : data.size(); }
    void clear()
    {
        data.clear();
        chunks.clear();
        sparse = false;
        ssize = 0;
    }
};

static bool
all_zero(const uint8_t* p, size_t n)
{
    return n == 0 || (p[0] == 0 && memcmp(p, p + 1, n - 1) == 0);
}

static void
sparse_write(File& f, uint64_t off, const uint8_t* buf, uint64_t n)
{
    uint64_t done = 0;
    while (done < n) {
        uint64_t pos = off + done;
        uint64_t ci = pos / CHUNK, co = pos % CHUNK;
        uint64_t k = std::min(n - done, CHUNK - co);
        auto it = f.chunks.find(ci);
        if (it == f.chunks.end()) {
            if (!all_zero(buf + done, (size_t)k)) {
                std::vector<uint8_t>& c = f.chunks[ci];
                c.assign((size_t)CHUNK, 0);
                memcpy(c.data() + co, buf + done, (size_t)k);
            }
        } else {
            memcpy(it->second.data() + co, buf + done, (size_t)k);
        }
        done += k;
    }
    if (off + n > f.ssize)
        f.ssize = off + n;
}

static void
make_sparse(File& f)
{
    if (f.sparse)
        return;
    std::vector<uint8_t> old;
    old.swap(f.data);
    f.sparse = true;
    f.ssize = 0;
    if (!old.empty())
        sparse_write(f, 0, old.data(), old.size());
    f.ssize = old.size();
}

struct Desc
{
    bool open = false;
    std::string path;
    int ctx = 0;
    uint64_t pos = 0; // file position for write/read/lseek
};

struct State
{
    std::map<std::string, File> files;
    std::vector<std::string> dirs;
    std::vector<Desc> fds; // index = fd number
    std::vector<Fault> faults;
    std::map<std::string, uint64_t> ncalls;
    std::map<std::string, int> persistent; // call -> errno
    std::vector<Event> log;
    double p_short = 0;
    sim::Rng rng{ 1 };
    int ctx = 0;
    std::string scratch;
};

static State S;

void
reset(uint64_t seed)
{
    S = State();
    S.rng = sim::Rng(seed ^ 0xf11e);
    S.fds.resize(3);
    for (int i = 0; i < 3; ++i) {
        S.fds[(size_t)i].open = true;
        S.fds[(size_t)i].path = "<std>";
        S.fds[(size_t)i].ctx = -1; // belongs to the environment
    }
    S.dirs = { "/", "/sim", "/sim/cwd", "/sim/out", "/tmp" };
}

void
add_fault(const Fault& f)
{
    S.faults.push_back(f);
}

void
set_random_short_writes(double p)
{
    S.p_short = p;
}

void
set_context(int c)
{
    S.ctx = c;
}

int
context()
{
    return S.ctx;
}

std::string
normalize(const std::string& p)
{
    std::string abs = p;
    if (abs.empty() || abs[0] != '/')
        abs = "/sim/cwd/" + abs;
    // collapse //, /./ and resolve ..
    std::vector<std::string> parts;
    size_t i = 0;
    while (i < abs.size()) {
        size_t j = abs.find('/', i);
        if (j == std::string::npos)
            j = abs.size();
        std::string part = abs.substr(i, j - i);
        if (part == "..") {
            if (!parts.empty())
                parts.pop_back();
        } else if (!part.empty() && part != ".")
            parts.push_back(part);
        i = j + 1;
    }
    std::string out;
    for (auto& s : parts)
        out += "/" + s;
    return out.empty() ? "/" : out;
}

static std::string
parent_of(const std::string& norm)
{
    size_t s = norm.rfind('/');
    if (s == 0 || s == std::string::npos)
        return "/";
    return norm.substr(0, s);
}

static bool
dir_exists(const std::string& norm)
{
    for (auto& d : S.dirs)
        if (d == norm)
            return true;
    if (!S.scratch.empty() && norm.compare(0, S.scratch.size(), S.scratch) == 0) {
        struct stat st;
        return ::stat(norm.c_str(), &st) == 0 && S_ISDIR(st.st_mode);
    }
    return false;
}

bool
exists(const std::string& path)
{
    return S.files.count(normalize(path)) != 0;
}

const std::vector<uint8_t>*
contents(const std::string& path)
{
    auto it = S.files.find(normalize(path));
    return it == S.files.end() || it->second.sparse ? nullptr
                                                    : &it->second.data;
}

bool
is_sparse(const std::string& path)
{
    auto it = S.files.find(normalize(path));
    return it != S.files.end() && it->second.sparse;
}

uint64_t
size(const std::string& path)
{
    auto it = S.files.find(normalize(path));
    return it == S.files.end() ? UINT64_MAX : it->second.size();
}

bool
read(const std::string& path, uint64_t off, uint64_t n, uint8_t* out)
{
    memset(out, 0, (size_t)n);
    auto it = S.files.find(normalize(path));
    if (it == S.files.end())
        return false;
    const File& f = it->second;
    if (!f.sparse) {
        if (off >= f.data.size())
            return false;
        uint64_t k = std::min<uint64_t>(n, f.data.size() - off);
        memcpy(out, f.data.data() + off, (size_t)k);
        return k > 0;
    }
    bool any = false;
    uint64_t done = 0;
    while (done < n && off + done < f.ssize) {
        uint64_t pos = off + done;
        uint64_t ci = pos / CHUNK, co = pos % CHUNK;
        uint64_t k = std::min(std::min(n - done, CHUNK - co), f.ssize - pos);
        auto c = f.chunks.find(ci);
        if (c != f.chunks.end()) {
            memcpy(out + done, c->second.data() + co, (size_t)k);
            any = true;
        }
        done += k;
    }
    return any;
}

std::vector<std::string>
list()
{
    std::vector<std::string> v;
    for (auto& kv : S.files)
        v.push_back(kv.first);
    return v;
}

void
put(const std::string& path, const std::vector<uint8_t>& data)
{
    File& f = S.files[normalize(path)];
    f.clear();
    f.data = data;
}

void
add_dir(const std::string& path)
{
    S.dirs.push_back(normalize(path));
}

void
remove(const std::string& path)
{
    S.files.erase(normalize(path));
}

const std::vector<Event>&
events()
{
    return S.log;
}

uint64_t
calls(const std::string& c)
{
    auto it = S.ncalls.find(c);
    return it == S.ncalls.end() ? 0 : it->second;
}

std::vector<std::pair<int, int>>
open_fds()
{
    std::vector<std::pair<int, int>> v;
    for (size_t i = 3; i < S.fds.size(); ++i)
        if (S.fds[i].open)
            v.push_back({ (int)i, S.fds[i].ctx });
    return v;
}

std::string
fd_path(int fd)
{
    if (fd < 0 || (size_t)fd >= S.fds.size())
        return "";
    return S.fds[(size_t)fd].path;
}

uint64_t
generation(const std::string& path)
{
    auto it = S.files.find(normalize(path));
    return it == S.files.end() ? 0 : it->second.gen;
}

std::string
scratch_dir()
{
    if (S.scratch.empty()) {
        const char* root = getenv("VERIF_ROOT");
        std::string base = std::string(root ? root : ".") + "/build";
        mkdir(base.c_str(), 0777);
        base += "/scratch";
        mkdir(base.c_str(), 0777);
        char b[64];
        snprintf(b, sizeof(b), "/%d", (int)getpid());
        base += b;
        mkdir(base.c_str(), 0777);
        char rp[4096];
        const char* full = realpath(base.c_str(), rp);
        S.scratch = full ? full : base;
    }
    return S.scratch;
}

// returns the fault that applies to this call (and advances the ordinal)
static Fault
next_fault(const char* call)
{
    uint64_t ord = S.ncalls[call]++;
    Fault out{ call, ord, F_NONE, 0 };
    for (auto& f : S.faults)
        if (f.call == call && f.ordinal == ord) {
            out = f;
            break;
        }
    return out;
}

static void
count_fault(const char* name)
{
    sim::probe((std::string("fault.") + name).c_str());
}

} // namespace simfs

using namespace simfs;

extern "C"
{

    int sim_open(const char* path, int flags, ...)
    {
        sim::yield_point("open");
        Fault f = next_fault("open");
        std::string norm = normalize(path ? path : "");
        Event ev{ "open", -1, norm, -1, 0, S.ctx, 0, 0 };
        int err = 0;
        if (f.kind == F_OPEN_EACCES)
            err = EACCES, count_fault("open_EACCES");
        else if (f.kind == F_OPEN_ENOENT)
            err = ENOENT, count_fault("open_ENOENT");
        else if (f.kind == F_OPEN_EMFILE)
            err = EMFILE, count_fault("open_EMFILE");
        else if (!path || !*path)
            err = ENOENT;
        else if (dir_exists(norm))
            err = EISDIR;
        else if (!S.files.count(norm)) {
            if (!(flags & O_CREAT))
                err = ENOENT;
            else if (!dir_exists(parent_of(norm)))
                err = ENOENT;
        }
        if (err) {
            ev.err = err;
            S.log.push_back(ev);
            errno = err;
            return -1;
        }
        File& file = S.files[norm];
        if (flags & O_TRUNC)
            file.clear();
        size_t fd = 3;
        while (fd < S.fds.size() && S.fds[fd].open)
            ++fd;
        if (fd >= S.fds.size())
            S.fds.resize(fd + 1);
        S.fds[fd].open = true;
        S.fds[fd].path = norm;
        S.fds[fd].ctx = S.ctx;
        S.fds[fd].pos = 0;
        ev.fd = (int)fd;
        ev.result = (int64_t)fd;
        S.log.push_back(ev);
        sim::probe("n.fs_open");
        return (int)fd;
    }

    int sim_close(int fd)
    {
        sim::yield_point("close");
        Fault f = next_fault("close");
        Event ev{ "close", fd, fd_path(fd), 0, 0, S.ctx, 0, 0 };
        if (fd >= 0 && fd <= 2) {
            ev.bad = true;
            S.log.push_back(ev);
            sim::oracle_fail("C16.closes_standard_descriptor",
                             "close(%d): a storage device closes a standard "
                             "descriptor it never opened (device context %d)",
                             fd, S.ctx);
        }
        if (fd < 0 || (size_t)fd >= S.fds.size() || !S.fds[(size_t)fd].open) {
            ev.bad = true;
            ev.result = -1;
            ev.err = EBADF;
            S.log.push_back(ev);
            sim::oracle_fail("C16.closes_unopened_descriptor",
                             "close(%d): descriptor is not open (stale number "
                             "or closed twice; device context %d)",
                             fd, S.ctx);
            errno = EBADF;
            return -1;
        }
        Desc& d = S.fds[(size_t)fd];
        if (d.ctx != S.ctx) {
            ev.bad = true;
            S.log.push_back(ev);
            sim::oracle_fail("C16.closes_foreign_descriptor",
                             "close(%d): descriptor belongs to device context "
                             "%d, closed by context %d (path %s)",
                             fd, d.ctx, S.ctx, d.path.c_str());
        }
        auto it = S.files.find(d.path);
        if (it != S.files.end() && it->second.locked_by == fd)
            it->second.locked_by = -1;
        d.open = false;
        sim::probe("n.fs_close");
        if (f.kind == F_CLOSE_EIO) {
            count_fault("close_EIO");
            ev.result = -1;
            ev.err = EIO;
            S.log.push_back(ev);
            errno = EIO;
            return -1;
        }
        S.log.push_back(ev);
        return 0;
    }

    ssize_t sim_pwrite(int fd, const void* buf, size_t n, off_t off)
    {
        sim::yield_point("pwrite");
        Fault f = next_fault("pwrite");
        Event ev{ "pwrite", fd, fd_path(fd), 0, 0, S.ctx, (uint64_t)off, n };
        if (fd < 0 || (size_t)fd >= S.fds.size() || !S.fds[(size_t)fd].open ||
            fd <= 2) {
            ev.bad = true;
            ev.result = -1;
            ev.err = EBADF;
            S.log.push_back(ev);
            sim::oracle_fail("C16.writes_unopened_descriptor",
                             "pwrite(fd=%d, n=%zu, off=%lld): descriptor is not "
                             "open / not owned by the device (context %d)",
                             fd, n, (long long)off, S.ctx);
            errno = EBADF;
            return -1;
        }
        if (off < 0) {
            ev.result = -1;
            ev.err = EINVAL;
            S.log.push_back(ev);
            errno = EINVAL;
            return -1;
        }
        Desc& d = S.fds[(size_t)fd];
        if (d.ctx != S.ctx) {
            ev.bad = true;
            S.log.push_back(ev);
            sim::oracle_fail("C16.writes_foreign_descriptor",
                             "pwrite(fd=%d): descriptor belongs to device "
                             "context %d, written by context %d (path %s)",
                             fd, d.ctx, S.ctx, d.path.c_str());
        }
        if (f.kind == F_LATENCY) {
            count_fault("latency");
            sim::sleep_ns((uint64_t)f.arg * 1000);
        }
        int perr = 0;
        auto pit = S.persistent.find("pwrite");
        if (pit != S.persistent.end())
            perr = pit->second;
        if (f.kind == F_EIO) {
            S.persistent["pwrite"] = perr = EIO;
            count_fault("pwrite_EIO_persistent");
        } else if (f.kind == F_ENOSPC) {
            S.persistent["pwrite"] = perr = ENOSPC;
            count_fault("pwrite_ENOSPC_persistent");
        } else if (f.kind == F_EIO_ONCE) {
            perr = EIO;
            count_fault("pwrite_EIO_once");
        } else if (f.kind == F_EINTR) {
            perr = EINTR;
            count_fault("pwrite_EINTR");
        } else if (f.kind == F_EAGAIN) {
            perr = EAGAIN;
            count_fault("pwrite_EAGAIN");
        }
        if (perr) {
            ev.result = -1;
            ev.err = perr;
            S.log.push_back(ev);
            sim::probe("n.fs_pwrite_failed");
            errno = perr;
            return -1;
        }
        size_t k = n;
        if (f.kind == F_ZERO) {
            k = 0;
            count_fault("pwrite_zero");
        } else if (f.kind == F_SHORT && n > 1) {
            k = (size_t)f.arg;
            if (k >= n)
                k = n - 1;
            if (k < 1)
                k = 1;
            count_fault("pwrite_short");
        } else if (S.p_short > 0 && n > 1 && S.rng.chance(S.p_short)) {
            k = 1 + (size_t)S.rng.below(n - 1);
            count_fault("pwrite_short");
        }
        File& file = S.files[d.path];
        if (!file.sparse && (uint64_t)off + k > SPARSE_LIMIT)
            make_sparse(file);
        if (file.sparse) {
            sparse_write(file, (uint64_t)off, (const uint8_t*)buf, k);
            sim::probe("n.fs_pwrite_sparse");
        } else {
            if ((uint64_t)off + k > file.data.size())
                file.data.resize((size_t)off + k, 0);
            if (k)
                memcpy(file.data.data() + off, buf, k);
        }
        file.gen++;
        ev.result = (int64_t)k;
        S.log.push_back(ev);
        sim::probe("n.fs_pwrite");
        return (ssize_t)k;
    }

    // ---- positional variants: code that uses write/lseek instead of pwrite
    // stays on the simulated files (same faults, same ownership checks)
    ssize_t sim_write(int fd, const void* buf, size_t n)
    {
        if (fd >= 0 && fd <= 2)
            return (ssize_t)n; // the environment's descriptors: swallowed
        if (fd < 0 || (size_t)fd >= S.fds.size() || !S.fds[(size_t)fd].open)
            return sim_pwrite(fd, buf, n, 0); // reports the bad descriptor
        ssize_t k = sim_pwrite(fd, buf, n, (off_t)S.fds[(size_t)fd].pos);
        if (k > 0)
            S.fds[(size_t)fd].pos += (uint64_t)k;
        return k;
    }

    off_t sim_lseek(int fd, off_t off, int whence)
    {
        if (fd < 3 || (size_t)fd >= S.fds.size() || !S.fds[(size_t)fd].open) {
            errno = EBADF;
            return (off_t)-1;
        }
        Desc& d = S.fds[(size_t)fd];
        int64_t base = whence == SEEK_SET
                         ? 0
                         : whence == SEEK_CUR
                             ? (int64_t)d.pos
                             : (int64_t)S.files[d.path].size();
        if (base + off < 0) {
            errno = EINVAL;
            return (off_t)-1;
        }
        d.pos = (uint64_t)(base + off);
        return (off_t)d.pos;
    }

    ssize_t sim_pread(int fd, void* buf, size_t n, off_t off)
    {
        if (fd < 3 || (size_t)fd >= S.fds.size() || !S.fds[(size_t)fd].open ||
            off < 0) {
            errno = EBADF;
            return -1;
        }
        Desc& d = S.fds[(size_t)fd];
        uint64_t sz = S.files[d.path].size();
        if ((uint64_t)off >= sz)
            return 0;
        uint64_t k = std::min<uint64_t>(n, sz - (uint64_t)off);
        simfs::read(d.path, (uint64_t)off, k, (uint8_t*)buf);
        return (ssize_t)k;
    }

    ssize_t sim_read(int fd, void* buf, size_t n)
    {
        if (fd < 3 || (size_t)fd >= S.fds.size() || !S.fds[(size_t)fd].open) {
            errno = EBADF;
            return -1;
        }
        ssize_t k = sim_pread(fd, buf, n, (off_t)S.fds[(size_t)fd].pos);
        if (k > 0)
            S.fds[(size_t)fd].pos += (uint64_t)k;
        return k;
    }

    int sim_fsync(int fd)
    {
        if (fd < 3 || (size_t)fd >= S.fds.size() || !S.fds[(size_t)fd].open) {
            errno = EBADF;
            return -1;
        }
        return 0;
    }

    int sim_ftruncate(int fd, off_t len)
    {
        if (fd < 3 || (size_t)fd >= S.fds.size() || !S.fds[(size_t)fd].open ||
            len < 0) {
            errno = EBADF;
            return -1;
        }
        File& f = S.files[S.fds[(size_t)fd].path];
        if ((uint64_t)len == f.size())
            return 0;
        // keep the prefix
        uint64_t keep = std::min<uint64_t>((uint64_t)len, f.size());
        std::vector<uint8_t> head;
        if (keep <= SPARSE_LIMIT) {
            head.resize((size_t)keep);
            if (keep)
                simfs::read(S.fds[(size_t)fd].path, 0, keep, head.data());
            f.clear();
            f.data = head;
            f.data.resize((size_t)std::min<uint64_t>((uint64_t)len, SPARSE_LIMIT), 0);
            if ((uint64_t)len > SPARSE_LIMIT) {
                make_sparse(f);
                f.ssize = (uint64_t)len;
            }
        } else {
            // sparse and large: drop chunks beyond the new end
            for (auto it = f.chunks.begin(); it != f.chunks.end();)
                if (it->first * CHUNK >= (uint64_t)len)
                    it = f.chunks.erase(it);
                else
                    ++it;
            f.ssize = (uint64_t)len;
        }
        f.gen++;
        return 0;
    }

    // LFS aliases (objcopy wants one target per redefinition)
    int sim_open(const char* path, int flags, ...);
    int sim_open64(const char* path, int flags, ...)
    {
        return sim_open(path, flags, 0666);
    }
    ssize_t sim_pwrite64(int fd, const void* b, size_t n, off_t o)
    {
        return sim_pwrite(fd, b, n, o);
    }
    off_t sim_lseek64(int fd, off_t o, int w) { return sim_lseek(fd, o, w); }
    ssize_t sim_pread64(int fd, void* b, size_t n, off_t o)
    {
        return sim_pread(fd, b, n, o);
    }
    int sim_fdatasync(int fd) { return sim_fsync(fd); }
    int sim_ftruncate64(int fd, off_t len) { return sim_ftruncate(fd, len); }

    int sim_flock(int fd, int op)
    {
        (void)op;
        Fault f = next_fault("flock");
        Event ev{ "flock", fd, fd_path(fd), 0, 0, S.ctx, 0, 0 };
        if (fd < 3 || (size_t)fd >= S.fds.size() || !S.fds[(size_t)fd].open) {
            ev.result = -1;
            ev.err = EBADF;
            S.log.push_back(ev);
            errno = EBADF;
            return -1;
        }
        File& file = S.files[S.fds[(size_t)fd].path];
        if (f.kind == F_FLOCK_FAIL ||
            (file.locked_by >= 0 && file.locked_by != fd)) {
            if (f.kind == F_FLOCK_FAIL)
                count_fault("flock_EWOULDBLOCK");
            ev.result = -1;
            ev.err = EWOULDBLOCK;
            S.log.push_back(ev);
            errno = EWOULDBLOCK;
            return -1;
        }
        file.locked_by = fd;
        S.log.push_back(ev);
        return 0;
    }

    int sim_access(const char* path, int mode)
    {
        (void)mode;
        Fault f = next_fault("access");
        std::string norm = normalize(path ? path : "");
        Event ev{ "access", -1, norm, 0, 0, S.ctx, 0, 0 };
        if (f.kind == F_ACCESS_FAIL) {
            count_fault("access_EACCES");
            ev.result = -1;
            ev.err = EACCES;
            S.log.push_back(ev);
            errno = EACCES;
            return -1;
        }
        if (path && *path && (S.files.count(norm) || dir_exists(norm))) {
            S.log.push_back(ev);
            return 0;
        }
        ev.result = -1;
        ev.err = ENOENT;
        S.log.push_back(ev);
        errno = ENOENT;
        return -1;
    }

    int sim_unlink(const char* path)
    {
        std::string norm = normalize(path ? path : "");
        Event ev{ "unlink", -1, norm, 0, 0, S.ctx, 0, 0 };
        auto it = S.files.find(norm);
        if (it == S.files.end()) {
            ev.result = -1;
            ev.err = ENOENT;
            S.log.push_back(ev);
            errno = ENOENT;
            return -1;
        }
        // an open descriptor keeps the inode alive on a real system; here the
        // bytes are dropped, which is all validation (file_is_writable) needs
        bool in_use = false;
        for (size_t i = 3; i < S.fds.size(); ++i)
            if (S.fds[i].open && S.fds[i].path == norm)
                in_use = true;
        if (!in_use)
            S.files.erase(it);
        S.log.push_back(ev);
        return 0;
    }

} // extern "C"
