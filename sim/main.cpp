#include "super.h"

// ASan options: classify sanitizer hits by exit code; no leak reports (runs
// end with _exit and the zygote lives for the whole batch).
extern "C" __attribute__((used, visibility("default"))) const char*
__asan_default_options()
{
    return "exitcode=77:detect_leaks=0:handle_abort=1:abort_on_error=0:"
           "allocator_may_return_null=1:detect_stack_use_after_return=0:"
           "malloc_context_size=8";
}

extern "C" __attribute__((used, visibility("default"))) const char*
__ubsan_default_options()
{
    return "print_stacktrace=1:halt_on_error=1:exitcode=77";
}

int
main(int argc, char** argv)
{
    return sim::super_main(argc, argv);
}
