// Harness `cam`: the three real simulated cameras of the common driver
// through the real HAL, device manager and loader, with their real streamer
// thread running on the simulation kernel.  Serves C17 (memory safety and
// reported shape) and C18 (fresh, increasing, trigger-gated frames).
#include "../sim/files.h"
#include "../sim/harness.h"
#include "../sim/seams.h"
#include "../sim/super.h"

#include <stdarg.h>
#include <stdio.h>
#include <stdlib.h>
#include <string.h>

extern "C"
{
#include "device/hal/camera.h"
#include "device/hal/device.manager.h"
#include "device/props/camera.h"
#include "device/props/components.h"
}

using namespace sim;

namespace {

// An oracle of the other camera property (C17 under C18's profile or vice
// versa) is counted and skipped; the run goes on (see rt.cpp soft_fail).
static bool
cam_soft(const char* id, const char* fmt, ...)
  __attribute__((format(printf, 2, 3)));
static bool
cam_soft(const char* id, const char* fmt, ...)
{
    char buf[1024];
    va_list ap;
    va_start(ap, fmt);
    vsnprintf(buf, sizeof(buf), fmt, ap);
    va_end(ap);
    if (oracle_gates(id))
        oracle_fail(id, "%s", buf); // does not return
    probe((std::string("other.") + id).c_str());
    return true;
}

static void
cam_reporter(int is_error, const char* file, int line, const char*,
             const char* msg)
{
    const char* base = strrchr(file, '/');
    logline("%s%s:%d %s", is_error ? "E " : "", base ? base + 1 : file, line,
            msg);
    yield_point("log");
}

static size_t
bpp(int t)
{
    switch (t) {
        case SampleType_u8:
        case SampleType_i8:
            return 1;
        case SampleType_f32:
            return 4;
        default:
            return 2;
    }
}

static const char*
kind_name(const std::string& k)
{
    if (k == "sin")
        return "simulated: radial sin";
    if (k == "empty")
        return "simulated: empty";
    return "simulated: uniform random";
}

struct CamWorld
{
    struct DeviceManager dm = { 0 };
    struct Camera* cam = nullptr;
    std::string kind;
    // settings in effect (model)
    bool configured = false;
    int binning = 1, type = 0;
    uint32_t w = 0, h = 0;
    float exposure_us = 0;
    int trig = 0;
    bool running = false;
    // C18 bookkeeping
    uint64_t seq = 0;
    int run_id = 0;
    uint64_t start_returned_seq = 0, start_time_ns = 0;
    uint64_t stop_invoked_seq = 0;
    uint64_t triggers_invoked = 0; // in this run (invocation started)
    uint64_t frames_returned = 0;  // in this run
    int64_t last_id = -1;
    bool getter_done = false;
};

static void
check_shape(CamWorld& c, const char* when)
{
    struct ImageShape s;
    memset(&s, 0, sizeof(s));
    if (camera_get_image_shape(c.cam, &s) != Device_Ok)
        if (cam_soft("C17.get_shape_failed", "%s: get_shape failed", when))
            return;
    uint32_t maxdim = 8192u / (uint32_t)c.binning;
    uint32_t ew = c.w < 1 ? 1 : (c.w > maxdim ? maxdim : c.w);
    uint32_t eh = c.h < 1 ? 1 : (c.h > maxdim ? maxdim : c.h);
    if (s.dims.width != ew || s.dims.height != eh || s.dims.channels != 1 ||
        s.dims.planes != 1)
        if (cam_soft("C17.wrong_shape",
                    "%s: configured %ux%u with binning %d: expected the "
                    "clamped shape %ux%u but the camera reports %ux%u "
                    "(channels %u, planes %u)",
                    when, c.w, c.h, c.binning, ew, eh, s.dims.width,
                    s.dims.height, s.dims.channels, s.dims.planes))
            return;
    if (s.strides.channels != 1 || s.strides.width != 1 ||
        s.strides.height != (int64_t)ew ||
        s.strides.planes != (int64_t)ew * eh)
        if (cam_soft("C17.wrong_strides",
                    "%s: strides (%lld,%lld,%lld,%lld) do not match the "
                    "reported %ux%u image",
                    when, (long long)s.strides.channels,
                    (long long)s.strides.width, (long long)s.strides.height,
                    (long long)s.strides.planes, ew, eh))
            return;
    if ((int)s.type != c.type)
        if (cam_soft("C17.wrong_type", "%s: sample type %d reported, %d set",
                    when, (int)s.type, c.type))
            return;
    struct CameraProperties p;
    memset(&p, 0, sizeof(p));
    if (camera_get(c.cam, &p) != Device_Ok)
        if (cam_soft("C17.get_failed", "%s: camera_get failed", when))
            return;
    if (p.binning != c.binning || (int)p.pixel_type != c.type ||
        p.shape.x != ew || p.shape.y != eh ||
        p.exposure_time_us != c.exposure_us ||
        p.input_triggers.frame_start.enable != (uint8_t)c.trig)
        if (cam_soft("C17.readback_differs",
                    "%s: values read back (binning %d, type %d, shape %ux%u, "
                    "exposure %g, trigger %d) are not the ones in effect "
                    "(binning %d, type %d, shape %ux%u, exposure %g, trigger "
                    "%d)",
                    when, p.binning, (int)p.pixel_type, p.shape.x, p.shape.y,
                    (double)p.exposure_time_us,
                    p.input_triggers.frame_start.enable, c.binning, c.type, ew,
                    eh, (double)c.exposure_us, c.trig))
            return;
}

// one frame into an exact-size heap buffer: ASan guards both ends
static int64_t
get_one_frame(CamWorld& c, bool* ok, bool undersized = false)
{
    struct ImageShape s;
    memset(&s, 0, sizeof(s));
    camera_get_image_shape(c.cam, &s);
    size_t n = (size_t)s.dims.width * s.dims.height * bpp((int)s.type);
    size_t declared = (size_t)s.strides.planes * bpp((int)s.type);
    if (n != declared)
        (void)cam_soft("C17.wrong_strides",
                       "bytes_of_image from strides (%zu) differs from "
                       "width*height*bytes (%zu)",
                       declared, n);
    if (undersized && n > 0) {
        // a caller's mistake: the buffer is one byte short.  The driver must
        // refuse (writing the image would overrun the exact-size buffer) and
        // the HAL then stops the camera.
        --n;
        probe("reach.undersized_frame_buffer");
    }
    uint8_t* buf = (uint8_t*)malloc(n ? n : 1);
    size_t nb = n;
    struct ImageInfo info;
    memset(&info, 0xEE, sizeof(info));
    enum DeviceStatusCode rc = camera_get_frame(c.cam, buf, &nb, &info);
    *ok = rc == Device_Ok;
    int64_t id = -1;
    if (*ok && info.hardware_frame_id != 0xEEEEEEEEEEEEEEEEull) {
        id = (int64_t)info.hardware_frame_id;
        if (memcmp(&info.shape, &s, sizeof(s)) != 0 && !c.stop_invoked_seq)
            (void)cam_soft("C17.frame_shape_differs",
                        "get_frame reports a shape different from get_shape "
                        "(%ux%u type %d vs %ux%u type %d)",
                        info.shape.dims.width, info.shape.dims.height,
                        (int)info.shape.type, s.dims.width, s.dims.height,
                        (int)s.type);
    }
    free(buf);
    return id;
}

struct CamHarness : Harness
{
    const char* name() const override { return "cam"; }
    int batch(const std::string&) const override { return 1; }

    bool nontrivial(const std::string& property,
                    const std::map<std::string, uint64_t>& p) const override
    {
        auto g = [&](const char* k) {
            auto it = p.find(k);
            return it == p.end() ? (uint64_t)0 : it->second;
        };
        if (property == "C18")
            return g("n.frames") >= 2;
        return g("n.frames") >= 1 && g("n.sets_accepted") >= 1;
    }

    static std::string gen_set(Rng& g, bool c18)
    {
        static const int bins[] = { 1, 1, 2, 4, 8 };
        int bin = c18 ? 1 : bins[g.below(5)];
        if (!c18 && g.chance(0.08)) {
            static const int bad[] = { 0, 3, 5, 6, 7 };
            bin = bad[g.below(5)];
        }
        int w, h;
        int k = (int)g.below(10);
        if (c18) {
            w = (int)g.range(1, 24);
            h = (int)g.range(1, 16);
        } else if (k < 5) {
            w = (int)g.range(1, 70);
            h = (int)g.range(1, 40);
        } else if (k < 8) {
            w = (int)g.range(1, 300);
            h = (int)g.range(1, 200);
        } else if (k == 8) {
            // around the clamping boundary
            w = 8192 / std::max(1, bin) + (int)g.range(-2, 3);
            h = (int)g.range(1, 8);
        } else {
            w = (int)g.range(1, 9);
            h = 8192 / std::max(1, bin) + (int)g.range(-2, 3);
        }
        if (g.chance(0.05))
            w = 0;
        static const int types[] = { SampleType_u8, SampleType_u16,
                                     SampleType_i8, SampleType_i16,
                                     SampleType_f32 };
        static const int exps[] = { 0, 0, 100, 1500, 10000, 100000, 1000000 };
        char b[200];
        snprintf(b, sizeof(b), "set bin=%d w=%d h=%d t=%d ox=%d oy=%d exp=%d trig=%d",
                 bin, w, h, types[g.below(5)], (int)g.below(50), (int)g.below(50),
                 exps[g.below(c18 ? 5 : 7)], c18 ? (g.chance(0.5) ? 1 : 0)
                                                 : (g.chance(0.15) ? 1 : 0));
        return b;
    }

    Plan generate(uint64_t seed, const std::string& property,
                  const std::string& profile) override
    {
        Plan p;
        p.harness = "cam";
        p.property = property;
        p.profile = profile;
        p.seed = seed;
        Rng g(mix64(seed, 0xca3));
        static const char* kinds[] = { "random", "sin", "empty" };
        p.sets("kind", kinds[g.below(3)]);
        char b[128];
        if (profile == "config" || profile == "oom") {
            p.sets("mode", "config");
            const bool oom = profile == "oom";
            int cycles = (int)g.range(1, 4);
            for (int c = 0; c < cycles; ++c) {
                int nsets = (int)g.range(1, oom ? 3 : 2);
                for (int i = 0; i < nsets; ++i) {
                    std::string st = gen_set(g, false);
                    if (oom && g.chance(0.35))
                        st += g.chance(0.5) ? " af=1" : " af=2";
                    p.ops.push_back(st);
                }
                p.ops.push_back("start");
                int nf = (int)g.range(1, 4);
                for (int i = 0; i < nf; ++i)
                    p.ops.push_back("frame");
                p.ops.push_back("stop");
            }
            Rng sg(mix64(seed, 0x5c));
            draw_sched(p, sg, 300, true, true);
            static const int64_t qs[] = { 1000, 10000, 100000 };
            p.seti("sched.quantum_ns", qs[sg.below(3)]);
        } else {
            // C18: getter, trigger and stopper threads across restarts
            p.sets("mode", "threads");
            int runs = (int)g.range(1, 3);
            for (int r = 0; r < runs; ++r) {
                p.ops.push_back(gen_set(g, true));
                snprintf(b, sizeof(b),
                         "run frames=%d getpause=%d trigs=%d triggap=%d "
                         "trigdelay=%d stopat=%d badat=%d",
                         (int)g.range(1, 12), (int)(g.chance(0.5) ? 0 : g.range(1, 3000)),
                         (int)g.range(0, 14), (int)g.range(0, 3000),
                         (int)g.range(0, 2000), (int)g.range(0, 30000),
                         // a frame call with a short buffer ends this run
                         g.chance(0.15) ? (int)g.range(0, 11) : -1);
                p.ops.push_back(b);
            }
            Rng sg(mix64(seed, 0x5c));
            draw_sched(p, sg, 600, true, true);
            static const int64_t qs[] = { 1000, 10000, 100000 };
            p.seti("sched.quantum_ns", qs[sg.below(3)]);
        }
        return p;
    }

    static bool do_set(CamWorld& c, const Op& op)
    {
        struct CameraProperties props;
        memset(&props, 0, sizeof(props));
        props.binning = (uint8_t)op.i("bin", 1);
        props.pixel_type = (enum SampleType)op.i("t", 0);
        props.shape.x = (uint32_t)op.i("w", 4);
        props.shape.y = (uint32_t)op.i("h", 4);
        props.offset.x = (uint32_t)op.i("ox", 0);
        props.offset.y = (uint32_t)op.i("oy", 0);
        props.exposure_time_us = (float)op.i("exp", 0);
        props.input_triggers.frame_start.enable = (uint8_t)op.i("trig", 0);
        // af=k: the k-th allocation the camera asks for during this set is
        // refused
        const int af = (int)op.i("af", 0);
        if (af > 0)
            simseam::guard_fail_nth(af);
        enum DeviceStatusCode rc = camera_set(c.cam, &props);
        const bool oom = simseam::guard_fail_fired();
        simseam::guard_fail_nth(0);
        if (oom) {
            // Whether the set reports the failure and what is in effect
            // afterwards is not judged; what the camera does with its buffers
            // from here on is (the guard allocator and ASan see a double
            // free, a use after free or a NULL buffer).
            probe("reach.set_with_refused_allocation");
            c.configured = false;
            return rc == Device_Ok;
        }
        int bin = (int)op.i("bin", 1);
        if (bin == 0)
            bin = 1; // the HAL maps 0 to 1
        bool valid_bin = bin == 1 || bin == 2 || bin == 4 || bin == 8;
        if (rc != Device_Ok) {
            if (valid_bin)
                (void)cam_soft("C17.valid_configuration_rejected",
                            "camera_set rejected binning %d, shape %lldx%lld, "
                            "type %lld",
                            bin, (long long)op.i("w"), (long long)op.i("h"),
                            (long long)op.i("t"));
            probe("n.sets_rejected");
            // a refused set changes nothing: what was in effect still is, and
            // is what reads back
            if (c.configured)
                check_shape(c, "after a refused set");
            return false;
        }
        if (!valid_bin) {
            // accepted something outside {1,2,4,8}: what is in effect is not
            // specified, only memory safety is judged from here on
            c.configured = false;
            probe("reach.odd_binning_accepted");
            return true;
        }
        c.configured = true;
        c.binning = bin;
        c.type = (int)op.i("t", 0);
        c.w = (uint32_t)op.i("w", 4);
        c.h = (uint32_t)op.i("h", 4);
        c.exposure_us = (float)op.i("exp", 0);
        c.trig = (int)op.i("trig", 0);
        probe("n.sets_accepted");
        if (bin > 1)
            probe("reach.binning_gt_1");
        if (c.w > 8192u / (uint32_t)bin || c.h > 8192u / (uint32_t)bin ||
            c.w == 0)
            probe("reach.shape_clamped");
        check_shape(c, "after set");
        return true;
    }

    void execute(const Plan& plan) override
    {
        begin_run(sched_of(plan));
        simfs::reset(plan.seed);
        simdl::reset();
        CamWorld* c = new CamWorld();
        c->kind = plan.gets("kind", "random");
        if (device_manager_init(&c->dm, cam_reporter) != Device_Ok)
            oracle_fail("C17.harness", "device manager init failed");
        struct DeviceIdentifier id;
        const char* nm = kind_name(c->kind);
        if (device_manager_select(&c->dm, DeviceKind_Camera, nm, strlen(nm),
                                  &id) != Device_Ok)
            oracle_fail("C17.harness", "cannot select %s", nm);
        c->cam = camera_open(&c->dm, &id);
        if (!c->cam)
            oracle_fail("C17.harness", "camera_open failed");
        bool threads = plan.gets("mode", "config") == "threads";

        for (auto& line : plan.ops) {
            Op op = parse_op(line);
            if (op.name == "set") {
                if (c->running)
                    continue;
                do_set(*c, op);
            } else if (op.name == "start") {
                if (c->running || camera_get_state(c->cam) != DeviceState_Armed)
                    continue;
                if (camera_start(c->cam) != Device_Ok)
                    oracle_fail("C17.start_failed", "camera_start failed");
                c->running = true;
                c->stop_invoked_seq = 0;
            } else if (op.name == "frame") {
                if (!c->running)
                    continue;
                if (c->trig || !c->configured)
                    camera_execute_trigger(c->cam);
                bool ok = false;
                int budget =
                  expect_progress("C18.get_frame_does_not_return",
                                  "camera_get_frame returns", 400000);
                get_one_frame(*c, &ok);
                progress_done(budget);
                if (ok)
                    probe("n.frames");
                if (c->configured)
                    check_shape(*c, "after get_frame");
            } else if (op.name == "stop") {
                if (!c->running)
                    continue;
                int budget = expect_progress("C18.stop_does_not_return",
                                             "camera_stop returns", 400000);
                camera_stop(c->cam);
                progress_done(budget);
                c->running = false;
            } else if (op.name == "run" && threads) {
                run_threads(*c, op);
            }
        }
        if (c->running)
            camera_stop(c->cam);
        camera_close(c->cam);
        device_manager_destroy(&c->dm);
        hash_u64(c->seq);
        delete c;
    }

    // ---------------------------------------------------------------- C18
    void run_threads(CamWorld& c, const Op& op)
    {
        if (camera_get_state(c.cam) != DeviceState_Armed)
            return;
        c.run_id++;
        c.triggers_invoked = 0;
        c.frames_returned = 0;
        c.last_id = -1;
        c.stop_invoked_seq = 0;
        c.getter_done = false;
        // the streamer thread exists (and counts frames) before camera_start
        // returns: time is measured from the invocation
        c.start_time_ns = now_ns();
        if (camera_start(c.cam) != Device_Ok)
            oracle_fail("C18.start_failed", "camera_start failed");
        c.running = true;
        c.start_returned_seq = ++c.seq;
        CamWorld* w = &c;
        int64_t frames = op.i("frames", 3), getpause = op.i("getpause", 0);
        int64_t trigs = op.i("trigs", 0), triggap = op.i("triggap", 0),
                trigdelay = op.i("trigdelay", 0), stopat = op.i("stopat", 1000);
        int64_t badat = op.i("badat", -1);
        int getter = spawn("getter", [w, frames, getpause, badat] {
            for (int64_t i = 0; i < frames; ++i) {
                if (w->stop_invoked_seq)
                    break;
                bool ok = false;
                uint64_t trig_before = w->triggers_invoked;
                (void)trig_before;
                int64_t id = get_one_frame(*w, &ok, i == badat);
                uint64_t ret = ++w->seq;
                (void)ret;
                if (!ok)
                    break; // camera no longer running
                bool overlapped_stop = w->stop_invoked_seq != 0;
                if (overlapped_stop)
                    probe("reach.frame_call_overlaps_stop");
                if (id < 0) {
                    // a call overlapping stop may return without a frame
                    continue;
                }
                if (overlapped_stop)
                    // ... but if it does deliver one, that frame counts (it
                    // must have been paid for by a trigger, not by the one
                    // stop fires to release the streamer)
                    probe("reach.frame_delivered_across_stop");
                probe("n.frames");
                w->frames_returned++;
                if (id <= w->last_id)
                    oracle_fail("C18.id_not_increasing",
                                "run %d: get_frame returned hardware frame id "
                                "%lld after id %lld (same frame twice or "
                                "going backwards)",
                                w->run_id, (long long)id,
                                (long long)w->last_id);
                if (w->trig) {
                    if (w->triggers_invoked == 0)
                        oracle_fail("C18.frame_without_trigger",
                                    "run %d: the software frame trigger is "
                                    "enabled and no trigger was issued in "
                                    "this run, but get_frame delivered frame "
                                    "id %lld",
                                    w->run_id, (long long)id);
                    if (w->frames_returned > w->triggers_invoked)
                        oracle_fail("C18.more_frames_than_triggers",
                                    "run %d: %llu frames delivered for %llu "
                                    "triggers",
                                    w->run_id,
                                    (unsigned long long)w->frames_returned,
                                    (unsigned long long)w->triggers_invoked);
                }
                if (w->last_id < 0) {
                    // the count restarts with each start: the id counts the
                    // frames generated in THIS run, each of which takes at
                    // least one exposure
                    if (w->exposure_us >= 2000) {
                        double elapsed_us =
                          (double)(now_ns() - w->start_time_ns) / 1000.0;
                        // (a frame takes at least half an exposure: the
                        // streamer sleeps for exposure minus twice its
                        // rendering time)
                        double bound =
                          2.0 * elapsed_us / (double)w->exposure_us + 2;
                        if ((double)id > bound)
                            oracle_fail(
                              "C18.count_not_restarted",
                              "run %d: the first frame after start has "
                              "hardware id %lld but only %.0f us passed "
                              "since start at >= %.0f/2 us per frame (at most "
                              "%.0f frames): the count did not restart",
                              w->run_id, (long long)id, elapsed_us,
                              (double)w->exposure_us, bound);
                    }
                }
                w->last_id = id;
                if (getpause)
                    sleep_ns((uint64_t)getpause * 1000);
            }
            w->getter_done = true;
        });
        int trigger = spawn("trigger", [w, trigs, triggap, trigdelay] {
            if (trigdelay)
                sleep_ns((uint64_t)trigdelay * 1000);
            for (int64_t i = 0; i < trigs && !w->stop_invoked_seq; ++i) {
                w->triggers_invoked++; // counted from the invocation on
                camera_execute_trigger(w->cam);
                probe("n.triggers");
                if (triggap)
                    sleep_ns((uint64_t)triggap * 1000);
                else
                    yield_point("trigger");
            }
        });
        // the driver thread is the stopper
        sleep_ns((uint64_t)stopat * 1000);
        c.stop_invoked_seq = ++c.seq;
        if (!c.getter_done)
            probe("reach.stop_with_frame_call_pending");
        int budget = expect_progress("C18.stop_does_not_return",
                                     "camera_stop returns", 400000);
        camera_stop(c.cam);
        progress_done(budget);
        c.running = false;
        int b2 = expect_progress("C18.pending_get_frame_not_released",
                                 "the frame call pending at stop returns",
                                 400000);
        join(getter);
        progress_done(b2);
        join(trigger);
        hash_u64((uint64_t)c.last_id + 7 * c.frames_returned);
    }
};

static CamHarness g_cam;

struct Reg
{
    Reg()
    {
        register_harness(&g_cam);
        std::vector<std::string> real = {
            "acquire-driver-common/src/simcams/{simulated.camera.c,bin2.avx2.c,"
            "imfill.pattern.cpp,popcount.cpp}, pcg_basic.c, basics.driver.c",
            "acquire-core-libs/src/acquire-device-hal/device/hal/{camera,"
            "driver,loader}.c and device.manager.cpp",
            "acquire-core-libs/src/acquire-core-platform/linux/platform.c "
            "(the streamer thread, its lock and condition variables, "
            "clock_sleep_ms)"
        };
        std::vector<std::string> stub = {
            "threads, locks, condition variables, clock, sleep: simulation "
            "kernel; dlopen/dlsym: dl seam",
            "callers: harness threads (getter with exact-size heap buffers, "
            "trigger thread, stopper)"
        };
        CheckSpec c;
        c.harness = "cam";
        c.real_components = real;
        c.stub_components = stub;
        c.property = "C17";
        c.level = "exploration";
        c.design_ref = "DESIGN.md section 4, C17";
        c.technique =
          "seeded set/start/get_frame/stop histories on the three real "
          "simulated cameras (real streamer thread on the simulation kernel) "
          "under ASan with exact-size caller buffers; reported shape, strides "
          "and read-back values compared with a reference model";
        c.rule =
          "a case is one generated history (camera kind, 1-4 cycles of "
          "set(s)/start/frames/stop with binning, sample type, shape incl. "
          "clamping boundaries, offset, exposure, trigger) plus a scheduling "
          "configuration; non-trivial = at least one configuration accepted "
          "and one frame fetched; distinct = distinct run fingerprint";
        c.profiles = { { "config", 8000, 160000, false },
                       { "oom", 1500, 30000, true } };
        c.assumptions = {
            "set is only issued while the camera is stopped",
            "profile oom refuses one of the buffer allocations inside some "
            "sets; what such a set returns and leaves in effect is not "
            "judged, memory safety of everything that follows is",
            "binning outside {1,2,4,8} that the camera accepts is only "
            "checked for memory safety",
            "the bin2 variant is the one /repo's build selects (-mavx2)"
        };
        c.reach_probes = { "reach.binning_gt_1", "reach.shape_clamped",
                           "n.sets_rejected",
                           "reach.set_with_refused_allocation" };
        register_check(c);

        c.property = "C18";
        c.design_ref = "DESIGN.md section 4, C18";
        c.technique =
          "deterministic simulation: getter, trigger and stopper threads "
          "against the real streamer thread under seeded schedules, stalls "
          "and spurious wake-ups, across restarts";
        c.rule =
          "a case is one generated plan (camera kind, 1-3 runs each with its "
          "own configuration, number and pacing of frame calls and triggers, "
          "stop instant) plus a scheduling configuration; non-trivial = at "
          "least two frames were delivered; distinct = distinct run "
          "fingerprint";
        c.profiles = { { "threads", 30000, 600000, false } };
        c.assumptions = {
            "frame calls that overlap a stop are exempt from the freshness "
            "checks (not from returning)",
            "a trigger counts from the moment its call is invoked"
        };
        c.reach_probes = { "reach.stop_with_frame_call_pending", "n.triggers",
                           "reach.frame_call_overlaps_stop" };
        register_check(c);
    }
} g_reg;

} // namespace
