// Harness `chan`: the real channel.c + real platform.c on the simulation
// kernel.  Serves C01 (exact delivery), C02 (no overlap / no modification),
// C03 (blocked writer resumes).  DESIGN.md section 4, C01-C03.
#include "../sim/harness.h"
#include "../sim/super.h"

#include <pthread.h>
#include <stdio.h>
#include <stdlib.h>
#include <string.h>

#include <deque>

extern "C"
{
#include "runtime/channel.h"
    void real_channel_new(struct channel* self, size_t capacity);
    int sim_pthread_mutex_lock(pthread_mutex_t*);
    int sim_pthread_mutex_unlock(pthread_mutex_t*);
    int sim_pthread_cond_wait(pthread_cond_t*, pthread_mutex_t*);
    int sim_pthread_cond_broadcast(pthread_cond_t*);
}

using namespace sim;

namespace {

struct Seg
{
    uint64_t off;
    uint32_t len;
    uint32_t addr;
};

struct ReaderM
{
    struct channel_reader r;
    bool started = false; // first map returned
    bool cursor_known = false;
    uint64_t cursor = 0; // stream offset of the next unconsumed byte
    bool mapped = false;
    uint8_t* mbeg = nullptr;
    size_t mlen = 0;
};

struct Model
{
    struct channel ch;
    size_t cap = 0;
    uint64_t salt = 0;
    // committed stream: S_inv counts commits whose write_unmap was invoked
    // while accepting; S_ret those whose write_unmap returned.
    uint64_t S_inv = 0, S_ret = 0;
    std::deque<Seg> segs;
    bool accepting = true;       // as of the last *returned* accept call
    bool refuse_invoked = false; // some accept(0) was invoked (free-running)
    // pending write
    bool pending = false;
    bool unmap_due = false; // an aborted write whose write_unmap is still due
    uint8_t* wptr = nullptr;
    size_t wlen = 0;
    uint32_t last_end = 0; // ring address just past the last handed-out write
    // where the channel's head is: the start of the last handed-out write
    // until that write is committed, its end afterwards (the lap change
    // happens when the region is handed out, so this holds for aborted writes)
    uint32_t head_addr = 0;
    // threads other than the writer that are inside a channel call right now
    int in_call = 0;
    ReaderM rd[8];
    bool free_running = false;
    // false once a commit raced a refusal in free-running mode: the stream is
    // then no longer known exactly and only structural checks remain
    bool exact = true;
};

static inline uint8_t
byte_at(const Model& m, uint64_t off)
{
    uint64_t z = (off + 1) * 0x9E3779B97F4A7C15ull ^ m.salt;
    z ^= z >> 29;
    z *= 0xBF58476D1CE4E5B9ull;
    return (uint8_t)(z >> 40);
}

static void
check_region_inside(Model& m, const char* who, uint8_t* p, size_t n)
{
    if (p < m.ch.data || p + n > m.ch.data + m.cap)
        oracle_fail("C02.outside_buffer",
                    "%s region [%ld,%ld) lies outside the buffer of %zu bytes",
                    who, (long)(p - m.ch.data), (long)(p - m.ch.data + n),
                    m.cap);
}

// ---- C02: a freshly handed-out write region must not overlap unconsumed data
static void
check_write_region(Model& m, uint8_t* p, size_t n)
{
    check_region_inside(m, "write", p, n);
    if (!n || !m.exact)
        return;
    uint32_t a = (uint32_t)(p - m.ch.data), b = a + (uint32_t)n;
    for (int i = 0; i < 8; ++i) {
        ReaderM& r = m.rd[i];
        if (!r.started || !r.cursor_known)
            continue;
        for (auto it = m.segs.rbegin(); it != m.segs.rend(); ++it) {
            const Seg& s = *it;
            uint64_t end = s.off + s.len;
            if (end <= r.cursor)
                break;
            uint64_t from = std::max<uint64_t>(s.off, r.cursor);
            uint32_t ra = s.addr + (uint32_t)(from - s.off);
            uint32_t rb = s.addr + s.len;
            if (ra < b && a < rb) {
                probe("n.overlap_detected");
                oracle_fail(
                  "C02.write_overlaps_unconsumed",
                  "write region ring[%u,%u) overlaps bytes ring[%u,%u) "
                  "(stream offsets %llu..%llu) that reader %d has %s "
                  "(cap=%zu)",
                  a, b, ra, rb, (unsigned long long)from,
                  (unsigned long long)end, i,
                  r.mapped ? "mapped/unconsumed" : "not consumed", m.cap);
            }
        }
    }
}

static void
fill_write(Model& m, bool anti)
{
    // bytes are keyed by the stream offset they get if committed
    for (size_t j = 0; j < m.wlen; ++j) {
        uint8_t v = byte_at(m, m.S_inv + j);
        m.wptr[j] = anti ? (uint8_t)~v : v;
    }
}

static void
verify_mapped_unchanged(Model& m, int i, const char* when)
{
    ReaderM& r = m.rd[i];
    if (!r.mapped || !m.exact || !r.cursor_known)
        return;
    for (size_t j = 0; j < r.mlen; ++j) {
        if (r.mbeg[j] != byte_at(m, r.cursor + j))
            oracle_fail("C02.mapped_region_modified",
                        "reader %d: byte %zu of its mapped region (stream "
                        "offset %llu) changed while mapped (%s)",
                        i, j, (unsigned long long)(r.cursor + j), when);
    }
}

static void
on_write_mapped(Model& m, uint8_t* p, size_t n)
{
    check_write_region(m, p, n);
    uint32_t a = (uint32_t)(p - m.ch.data);
    if (m.free_running)
        hist("wmap %zu -> ring%u", n, a);
    if (n && a < m.last_end)
        probe("reach.wraps");
    if (n && a + n == m.cap)
        probe("reach.write_ends_at_capacity");
    m.pending = true;
    m.wptr = p;
    m.wlen = n;
    m.last_end = a + (uint32_t)n;
    if (n)
        m.head_addr = a;
    fill_write(m, false);
    // C02: filling must not have disturbed any mapped reader region
    for (int i = 0; i < 8; ++i)
        verify_mapped_unchanged(m, i, "after the writer filled a new region");
}

// model side of a commit whose effect is certain
static void
model_commit(Model& m)
{
    if (m.wlen) {
        m.segs.push_back(Seg{ m.S_inv, (uint32_t)m.wlen,
                              (uint32_t)(m.wptr - m.ch.data) });
        m.S_inv += m.wlen;
        m.head_addr = (uint32_t)(m.wptr - m.ch.data) + (uint32_t)m.wlen;
        // prune segments that have certainly been overwritten
        uint64_t later = 0;
        size_t keep_from = 0;
        for (size_t k = m.segs.size(); k-- > 0;) {
            if (later >= 2 * m.cap) {
                keep_from = k + 1;
                break;
            }
            later += m.segs[k].len;
        }
        for (size_t k = 0; k < keep_from; ++k)
            m.segs.pop_front();
    }
    probe("n.commits");
}

static void
do_commit(Model& m)
{
    if (!m.pending)
        return;
    bool eff = m.accepting;
    if (eff)
        model_commit(m);
    else
        probe("reach.commit_while_refusing");
    m.pending = false;
    channel_write_unmap(&m.ch);
    if (eff)
        m.S_ret = m.S_inv;
}

static void
do_abort(Model& m, bool then_unmap = false)
{
    if (!m.pending)
        return;
    fill_write(m, true); // aborted bytes must never be seen by a reader
    m.pending = false;
    probe("n.aborts");
    channel_abort_write(&m.ch);
    if (then_unmap) {
        // the source thread's way of dropping an empty camera frame: abort,
        // then the usual unmap - which must commit nothing
        channel_write_unmap(&m.ch);
        probe("n.abort_then_unmap");
    }
}

// ---- C03: does a request of n bytes fit, given what the readers have
// consumed?  Ring geometry only: occupied = every committed byte some started
// reader has not consumed (a mapped region counts until its unmap).  The
// request fits at the head if it ends inside the buffer and meets nothing
// occupied, or - when nothing occupied lies at or beyond the head, i.e. the
// writer has not lapped a reader - at offset 0 if it ends before the first
// occupied byte.  A reader that has consumed an old lap to its end while its
// next byte (or the head) is at offset 0 may legitimately still be booked at
// that end until its next call: it is counted as occupying the byte there (the
// conservative reading), so that only a request that fits under both readings
// is judged.
// Returns 1 fits, 0 does not, -1 not decidable from the model.
static int
model_fits(const Model& m, size_t n)
{
    if (!m.exact || m.pending || n == 0 || n >= m.cap)
        return -1;
    std::vector<std::pair<uint32_t, uint32_t>> occ;
    for (int i = 0; i < 8; ++i) {
        const ReaderM& r = m.rd[i];
        if (!r.started)
            continue;
        if (!r.cursor_known)
            return -1;
        if (r.cursor > m.S_ret)
            return -1;
        bool have_next = false, have_prev = r.cursor == 0;
        uint32_t next_addr = 0, prev_end = 0;
        for (auto it = m.segs.rbegin(); it != m.segs.rend(); ++it) {
            const Seg& g = *it;
            uint64_t end = g.off + g.len;
            if (end > r.cursor) {
                uint64_t from = std::max<uint64_t>(g.off, r.cursor);
                occ.push_back({ g.addr + (uint32_t)(from - g.off),
                                g.addr + g.len });
                if (g.off <= r.cursor) {
                    have_next = true;
                    next_addr = g.addr + (uint32_t)(r.cursor - g.off);
                }
            }
            if (r.cursor > 0 && g.off < r.cursor && r.cursor <= end) {
                have_prev = true;
                prev_end = g.addr + (uint32_t)(r.cursor - g.off);
            }
            if (end < r.cursor)
                break;
        }
        if (r.cursor < m.S_ret && !have_next)
            return -1; // the segment was pruned
        if (!have_prev)
            return -1;
        // where the reader is booked if nothing has moved it since its last
        // unmap: just past the last byte it consumed.  Its next byte (or, for
        // a reader that has consumed everything, the head) may be elsewhere
        // after a lap change; the channel moves the reader at its next call.
        const uint32_t expect = have_next ? next_addr : m.head_addr;
        if (r.cursor > 0 && prev_end != expect && prev_end < m.cap)
            occ.push_back({ prev_end, prev_end + 1 });
    }
    const uint32_t h = m.head_addr;
    bool lapped = false;
    uint32_t first = UINT32_MAX;
    for (auto& o : occ) {
        if (o.second > h && o.first >= h)
            lapped = true;
        if (o.first < h && o.second > h)
            return -1; // head inside occupied bytes: model out of step
        first = std::min(first, o.first);
    }
    if ((size_t)h + n <= m.cap) {
        bool clear = true;
        for (auto& o : occ)
            if (o.first < h + n && h < o.second)
                clear = false;
        if (clear)
            return 1;
    }
    if (!lapped && (occ.empty() || n <= first))
        return 1;
    return 0;
}

static const Seg*
find_seg_at_addr(Model& m, uint32_t a)
{
    for (auto it = m.segs.rbegin(); it != m.segs.rend(); ++it)
        if (it->addr == a)
            return &*it;
    return nullptr;
}

static void
do_rmap(Model& m, int i)
{
    ReaderM& r = m.rd[i];
    if (r.mapped)
        return;
    const uint64_t sret = m.S_ret; // commits that returned before this call
    bool first = !r.started;
    ++m.in_call;
    struct slice s = channel_read_map(&m.ch, &r.r);
    --m.in_call;
    size_t len = (size_t)(s.end - s.beg);
    probe("n.read_maps");
    if (m.free_running)
        hist("rmap %d -> %zu @ring%ld", i, len,
             len ? (long)(s.beg - m.ch.data) : -1L);
    if (r.r.status != Channel_Ok)
        oracle_fail("C01.reader_status_error",
                    "reader %d: channel reports status %d for a well-behaved "
                    "reader (alternating map/unmap)",
                    i, (int)r.r.status);
    if (len)
        check_region_inside(m, "read", s.beg, len);
    if (!m.exact) {
        // structural checks only
        r.started = true;
        r.cursor_known = false;
        if (len) {
            r.mapped = true;
            r.mbeg = s.beg;
            r.mlen = len;
        }
        return;
    }
    if (first) {
        r.started = true;
        if (m.pending)
            probe("reach.join_with_pending_write");
        int live = 0;
        for (int k = 0; k < 8; ++k)
            live += m.rd[k].started;
        if (live == 8)
            probe("reach.eight_readers");
        if (!len) {
            probe("reach.join_empty");
            if (!m.free_running) {
                r.cursor = m.S_ret;
                r.cursor_known = true;
            }
            return;
        }
        probe("reach.join_with_data");
    }
    if (!r.cursor_known) {
        if (!len)
            return;
        // the start of a reader's stream must be a write boundary
        const Seg* g = find_seg_at_addr(m, (uint32_t)(s.beg - m.ch.data));
        if (!g)
            oracle_fail("C01.start_not_write_boundary",
                        "reader %d: first mapping starts at ring offset %ld "
                        "which is not the start of any committed write",
                        i, (long)(s.beg - m.ch.data));
        r.cursor = g->off;
        r.cursor_known = true;
    }
    if (!len) {
        // ---- empty => drained (sound form: everything whose commit returned
        // before this read was invoked)
        if (r.cursor < sret) {
            probe("n.empty_not_drained");
            oracle_fail("C01.empty_but_not_drained",
                        "reader %d: read_map returned an empty region although "
                        "%llu committed bytes (stream offsets %llu..%llu) are "
                        "still unconsumed by it (cap=%zu)",
                        i, (unsigned long long)(sret - r.cursor),
                        (unsigned long long)r.cursor, (unsigned long long)sret,
                        m.cap);
        }
        probe("n.read_empty");
        return;
    }
    if (r.cursor + len > m.S_inv)
        // (C02 states it too: a reader's region lies inside the committed data)
        oracle_fail(oracle_gates("C02.read_region_outside_committed")
                      ? "C02.read_region_outside_committed"
                      : "C01.read_beyond_committed",
                    "reader %d: mapping of %zu bytes at stream offset %llu "
                    "extends past the %llu committed bytes",
                    i, len, (unsigned long long)r.cursor,
                    (unsigned long long)m.S_inv);
    for (size_t j = 0; j < len; ++j) {
        if (s.beg[j] != byte_at(m, r.cursor + j)) {
            oracle_fail(
              "C01.wrong_bytes",
              "reader %d: byte %zu of a %zu-byte mapping differs from the "
              "committed stream at offset %llu (got %02x want %02x): data "
              "lost, duplicated, reordered or altered (cap=%zu)",
              i, j, len, (unsigned long long)(r.cursor + j), s.beg[j],
              byte_at(m, r.cursor + j), m.cap);
        }
    }
    r.mapped = true;
    r.mbeg = s.beg;
    r.mlen = len;
    if ((size_t)(s.beg - m.ch.data) + len == m.cap)
        probe("reach.read_ends_at_capacity");
    probe("n.read_nonempty");
}

static void
do_runmap(Model& m, int i, const std::string& k)
{
    ReaderM& r = m.rd[i];
    if (!r.mapped)
        return;
    verify_mapped_unchanged(m, i, "at unmap");
    size_t kk;
    if (k == "all")
        kk = r.mlen;
    else if (k == "over")
        kk = r.mlen + 1;
    else if (k == "huge")
        kk = (size_t)1 << 40;
    else if (k == "max")
        kk = (size_t)-1; // "I took everything"
    else if (k == "i63")
        kk = (size_t)1 << 63;
    else if (k == "i63m")
        kk = ((size_t)1 << 63) + r.mlen - 1;
    else if (k == "half")
        kk = r.mlen / 2;
    else if (k == "lenm1")
        kk = r.mlen ? r.mlen - 1 : 0;
    else
        kk = (size_t)strtoull(k.c_str(), 0, 10);
    size_t consumed = std::min(kk, r.mlen);
    if (consumed < r.mlen)
        probe("reach.partial_consume");
    if (consumed == 0)
        probe("reach.consume_zero");
    // optimistic model update at invocation (sound for the overlap check)
    r.cursor += consumed;
    r.mapped = false;
    if (m.free_running)
        hist("runmap %d consumed=%zu", i, consumed);
    ++m.in_call;
    channel_read_unmap(&m.ch, &r.r, kk);
    --m.in_call;
    probe("n.read_unmaps");
}

// ------------------------------------------------------------ writer helper
struct Mailbox
{
    pthread_mutex_t mu = PTHREAD_MUTEX_INITIALIZER;
    pthread_cond_t cv = PTHREAD_COND_INITIALIZER;
    int req = 0; // 1 = map, 2 = quit
    size_t n = 0;
    bool busy = false; // a map request is in flight (maybe blocked)
    bool done = false; // result available
    void* result = nullptr;
};

static size_t
resolve_size(Model& m, const std::string& spec)
{
    size_t cap = m.cap;
    auto clampn = [&](long v) -> size_t {
        if (v < 0)
            v = 0;
        if ((size_t)v >= cap)
            v = (long)cap - 1;
        return (size_t)v;
    };
    long toend = (long)cap - (long)m.last_end;
    if (spec == "toend")
        return clampn(toend);
    if (spec == "toend-1")
        return clampn(toend - 1);
    if (spec == "toend+1")
        return clampn(toend + 1);
    if (spec == "cap-1")
        return cap - 1;
    if (spec == "cap")
        return cap;
    if (spec == "cap+3")
        return cap + 3;
    if (spec == "tail" || spec == "tail-1" || spec == "tail+1") {
        // ring address of the slowest reader's first unconsumed byte
        long best = -1;
        for (int i = 0; i < 8; ++i) {
            ReaderM& r = m.rd[i];
            if (!r.started || !r.cursor_known)
                continue;
            for (auto& s : m.segs) {
                if (s.off + s.len > r.cursor) {
                    long a = (long)s.addr +
                             (long)(std::max<uint64_t>(s.off, r.cursor) - s.off);
                    if (best < 0 || a < best)
                        best = a;
                    break;
                }
            }
        }
        if (best < 0)
            best = (long)cap / 2;
        if (spec == "tail-1")
            best -= 1;
        if (spec == "tail+1")
            best += 1;
        return clampn(best);
    }
    if (!spec.empty() && spec.back() == '%') {
        long pct = strtol(spec.c_str(), 0, 10);
        return clampn((long)cap * pct / 100);
    }
    return clampn(strtol(spec.c_str(), 0, 10));
}

struct ChanHarness : Harness
{
    const char* name() const override { return "chan"; }
    int batch(const std::string& property) const override
    {
        (void)property;
        return 100;
    }

    bool nontrivial(const std::string& property,
                    const std::map<std::string, uint64_t>& p) const override
    {
        auto g = [&](const char* k) {
            auto it = p.find(k);
            return it == p.end() ? (uint64_t)0 : it->second;
        };
        if (property == "C03")
            return g("reach.writer_blocked") > 0;
        return g("reach.wraps") > 0 && g("n.read_nonempty") > 0;
    }

    std::vector<ShrinkKey> shrink_keys() const override
    {
        return { { "cap", 8 }, { "readers", 1 } };
    }

    // --------------------------------------------------------- generation
    static std::string gen_size(Rng& g, size_t cap)
    {
        // a request that can never fit: must be turned down at once (and must
        // leave the channel usable)
        if (g.chance(0.03))
            return g.chance(0.5) ? "cap" : "cap+3";
        int k = (int)g.below(20);
        switch (k) {
            case 0:
                return "0";
            case 1:
                return "1";
            case 2:
                return "cap-1";
            case 3:
                return "toend";
            case 4:
                return "toend-1";
            case 5:
                return "toend+1";
            case 6:
                return "tail";
            case 7:
                return "tail-1";
            case 8:
                return "tail+1";
            case 9:
            case 10:
                return std::to_string(g.range(1, 8));
            case 11:
            case 12:
                return std::to_string(g.range(20, 60)) + "%";
            case 13:
                return std::to_string(g.range(60, 99)) + "%";
            default:
                return std::to_string(
                  g.range(1, (int64_t)std::max<size_t>(2, cap / 3)));
        }
    }

    static std::string gen_k(Rng& g)
    {
        int k = (int)g.below(12);
        switch (k) {
            case 0:
                return "0";
            case 1:
                return "1";
            case 2:
                return "over";
            case 3: {
                // counts above the mapped length, up to the largest value
                static const char* big[] = { "huge", "max", "i63", "i63m" };
                return big[g.below(4)];
            }
            case 4:
                return "half";
            case 5:
                return "lenm1";
            case 6:
                return std::to_string(g.range(1, 64));
            default:
                return "all";
        }
    }

    static size_t gen_cap(Rng& g)
    {
        int k = (int)g.below(10);
        if (k < 4)
            return (size_t)g.range(8, 48);
        if (k < 7)
            return (size_t)g.range(48, 256);
        if (k < 9)
            return (size_t)g.range(256, 1024);
        return (size_t)g.range(1024, 4096);
    }

    Plan generate(uint64_t seed, const std::string& property,
                  const std::string& profile) override
    {
        Plan p;
        p.harness = "chan";
        p.property = property;
        p.profile = profile;
        p.seed = seed;
        Rng g(mix64(seed, 0xc4a7));
        size_t cap = gen_cap(g);
        int readers = (int)g.range(1, 8);
        if (g.chance(0.5))
            readers = (int)g.range(1, 3);
        p.seti("cap", (int64_t)cap);
        p.seti("readers", readers);
        if (profile == "seq") {
            p.sets("mode", "seq");
            p.seti("sched.strategy", ST_DEFAULT);
            p.seti("sched.quantum_ns", 100);
            int nops = (int)g.range(10, 200);
            // reader activity level: lagging readers make the ring fill up
            int read_w = (int)g.range(1, 6), write_w = (int)g.range(1, 6);
            bool toggles = g.chance(0.3);
            // the owner retires the lap now and then (what acquire_stop does
            // once the workers are gone); only legal while no write is mapped
            bool laps = g.chance(0.3);
            for (int i = 0; i < nops; ++i) {
                int tot = read_w * 2 + write_w * 2 + (toggles ? 1 : 0);
                if (laps && g.chance(0.08)) {
                    p.ops.push_back("newlap");
                    continue;
                }
                int x = (int)g.below((uint64_t)tot);
                char b[128];
                if (x < write_w) {
                    p.ops.push_back("wmap n=" + gen_size(g, cap));
                } else if (x < 2 * write_w) {
                    if (g.chance(0.85))
                        p.ops.push_back("wcommit");
                    else {
                        // abort alone; abort followed at once by the unmap the
                        // source thread issues; or abort now, that unmap later
                        // (other operations in between)
                        static const char* v[] = { "wabort", "wabort unmap=1",
                                                   "wabort hold=1" };
                        p.ops.push_back(v[g.below(3)]);
                    }
                    if (g.chance(0.1))
                        p.ops.push_back("wunmap");
                } else if (x < 2 * write_w + read_w) {
                    snprintf(b, sizeof(b), "rmap r=%d",
                             (int)g.below((uint64_t)readers));
                    p.ops.push_back(b);
                } else if (x < 2 * write_w + 2 * read_w) {
                    snprintf(b, sizeof(b), "runmap r=%d k=%s",
                             (int)g.below((uint64_t)readers), gen_k(g).c_str());
                    p.ops.push_back(b);
                } else {
                    p.ops.push_back(g.chance(0.5) ? "accept v=0" : "accept v=1");
                }
            }
        } else {
            // free-running threads: per-thread programs
            p.sets("mode", "free");
            bool c03 = property == "C03";
            const std::string& variant = profile; // free | release | refuse
            if (c03 && cap > 512) {
                cap = (size_t)g.range(16, 512);
                p.seti("cap", (int64_t)cap);
            }
            if (c03 && readers > 3) {
                readers = (int)g.range(1, 3);
                p.seti("readers", readers);
            }
            int nw = (int)g.range(3, 40);
            for (int i = 0; i < nw; ++i) {
                std::string sz = c03 && g.chance(0.6)
                                   ? std::to_string(g.range(30, 99)) + "%"
                                   : gen_size(g, cap);
                std::string line = "w n=" + sz;
                if (g.chance(0.1))
                    line += " abort=1";
                if (g.chance(0.2))
                    line += " pause=" + std::to_string(g.range(1, 200));
                p.ops.push_back(line);
            }
            for (int r = 0; r < readers; ++r) {
                int nr = (int)g.range(2, 40);
                for (int i = 0; i < nr; ++i) {
                    char b[160];
                    std::string k = gen_k(g);
                    int hold = g.chance(0.2) ? (int)g.range(1, 300) : 0;
                    int pause = g.chance(0.5) ? (int)g.range(1, 300) : 0;
                    snprintf(b, sizeof(b), "r r=%d k=%s hold=%d pause=%d", r,
                             k.c_str(), hold, pause);
                    p.ops.push_back(b);
                }
                if (variant == "refuse") {
                    // the reader stops for good, possibly holding a region
                    char b[64];
                    snprintf(b, sizeof(b), "rstop r=%d hold=%d", r,
                             g.chance(0.5) ? 1 : 0);
                    p.ops.push_back(b);
                }
            }
            if (variant == "refuse") {
                // refusal is the only thing that can release the writer
                char b[96];
                snprintf(b, sizeof(b), "t at=%d v=0", (int)g.range(0, 3000));
                p.ops.push_back(b);
            } else if (variant == "free" && g.chance(0.2)) {
                char b[96];
                snprintf(b, sizeof(b), "t at=%d v=0", (int)g.range(0, 3000));
                p.ops.push_back(b);
                snprintf(b, sizeof(b), "t at=%d v=1", (int)g.range(0, 3000));
                p.ops.push_back(b);
            }
            Rng sg(mix64(seed, 0x5c));
            draw_sched(p, sg, 3000, true, true);
        }
        return p;
    }

    // ---------------------------------------------------------- execution
    void execute(const Plan& plan) override
    {
        if (plan.gets("mode", "seq") == "seq")
            exec_seq(plan);
        else
            exec_free(plan);
    }

    static void writer_helper(Model* m, Mailbox* mb)
    {
        sim_pthread_mutex_lock(&mb->mu);
        for (;;) {
            while (mb->req == 0)
                sim_pthread_cond_wait(&mb->cv, &mb->mu);
            int req = mb->req;
            size_t n = mb->n;
            mb->req = 0;
            if (req == 2)
                break;
            sim_pthread_mutex_unlock(&mb->mu);
            void* p = channel_write_map(&m->ch, n);
            sim_pthread_mutex_lock(&mb->mu);
            mb->result = p;
            mb->done = true;
        }
        sim_pthread_mutex_unlock(&mb->mu);
    }

    void exec_seq(const Plan& plan)
    {
        begin_run(sched_of(plan));
        set_deadlock_oracle("C03.deadlock");
        Model* m = new Model();
        m->cap = (size_t)plan.geti("cap", 64);
        if (m->cap < 2)
            m->cap = 2;
        m->salt = mix64(plan.seed, 0xb17e);
        real_channel_new(&m->ch, m->cap);
        Mailbox* mb = new Mailbox();
        int wt = spawn("writer", [m, mb] { writer_helper(m, mb); });
        int nreaders = (int)plan.geti("readers", 1);
        if (nreaders < 1)
            nreaders = 1;
        if (nreaders > 8)
            nreaders = 8;
        size_t wlen_req = 0;

        auto settle = [&] { run_until([] { return false; }); };
        auto collect = [&]() {
            // has the writer helper returned from write_map?
            if (mb->busy && mb->done) {
                mb->busy = false;
                mb->done = false;
                if (mb->result) {
                    on_write_mapped(*m, (uint8_t*)mb->result, wlen_req);
                } else {
                    if (m->accepting && wlen_req < m->cap)
                        oracle_fail("C03.null_while_accepting",
                                    "write_map(%zu) returned no region although "
                                    "writes are accepted and %zu < capacity %zu",
                                    wlen_req, wlen_req, m->cap);
                    probe("reach.write_refused");
                }
            }
        };
        settle();
        for (auto& line : plan.ops) {
            Op op = parse_op(line);
            if (op.name == "wunmap") {
                if (!m->unmap_due)
                    continue;
                // the unmap that belongs to an aborted write commits nothing
                m->unmap_due = false;
                channel_write_unmap(&m->ch);
                probe("n.late_unmap_after_abort");
                hist("wunmap (after abort)");
            } else if (op.name == "wmap") {
                if (mb->busy || m->pending || m->unmap_due)
                    continue;
                wlen_req = resolve_size(*m, op.s("n", "1"));
                sim_pthread_mutex_lock(&mb->mu);
                mb->req = 1;
                mb->n = wlen_req;
                mb->busy = true;
                mb->done = false;
                sim_pthread_cond_broadcast(&mb->cv);
                sim_pthread_mutex_unlock(&mb->mu);
                settle();
                collect();
                if (wlen_req >= m->cap) {
                    probe("reach.oversize_request");
                    if (mb->busy || m->pending)
                        oracle_fail("C03.oversize_request_not_refused",
                                    "write_map(%zu) on a ring of %zu bytes %s "
                                    "(a request that can never fit must "
                                    "return no region)",
                                    wlen_req, m->cap,
                                    mb->busy ? "blocks" : "was granted");
                }
                if (mb->busy) {
                    probe("reach.writer_blocked");
                    if (!m->accepting)
                        oracle_fail("C03.blocked_while_refusing",
                                    "write_map(%zu) blocks although the channel "
                                    "refuses writes",
                                    wlen_req);
                }
                hist("wmap %zu -> %s", wlen_req,
                      mb->busy ? "blocked" : (m->pending ? "ok" : "null"));
            } else if (op.name == "wcommit") {
                if (!m->pending)
                    continue;
                do_commit(*m);
                hist("wcommit S=%llu", (unsigned long long)m->S_inv);
            } else if (op.name == "wabort") {
                if (!m->pending)
                    continue;
                do_abort(*m, op.i("unmap", 0) != 0);
                if (op.i("hold", 0))
                    m->unmap_due = true;
                hist("wabort");
            } else if (op.name == "rmap") {
                int i = (int)(op.i("r") % nreaders);
                if (m->rd[i].mapped)
                    continue;
                do_rmap(*m, i);
                hist("rmap %d -> %zu @%llu", i,
                      m->rd[i].mapped ? m->rd[i].mlen : (size_t)0,
                      (unsigned long long)m->rd[i].cursor);
            } else if (op.name == "runmap") {
                int i = (int)(op.i("r") % nreaders);
                if (!m->rd[i].mapped)
                    continue;
                do_runmap(*m, i, op.s("k", "all"));
                settle();
                collect();
                hist("runmap %d @%llu", i,
                      (unsigned long long)m->rd[i].cursor);
            } else if (op.name == "newlap") {
                // contract: not while a write is mapped (or being waited for)
                if (mb->busy || m->pending || m->unmap_due)
                    continue;
                channel_start_new_lap_if_drained(&m->ch);
                probe("n.newlap_calls");
                hist("newlap");
            } else if (op.name == "accept") {
                int v = (int)op.i("v", 1);
                channel_accept_writes(&m->ch, (uint32_t)v);
                m->accepting = v != 0;
                settle();
                collect();
                if (!v && mb->busy)
                    oracle_fail("C03.refusal_does_not_release_writer",
                                "channel_accept_writes(0) returned but the "
                                "blocked write_map(%zu) did not return",
                                wlen_req);
                hist("accept %d", v);
            } else
                continue;
            // Lost wake-up probe: a writer that is still asleep after this
            // operation must be asleep because its request does not fit.  A
            // spurious wake-up (always allowed) makes it re-evaluate; if it
            // then gets through, the space was there and nobody told it.
            if (mb->busy && op.name != "wmap" && poke_cond_waiter(wt)) {
                settle();
                collect();
                if (!mb->busy)
                    oracle_fail("C03.missed_wakeup",
                                "after '%s' the blocked write_map(%zu) stayed "
                                "asleep although its request could be "
                                "satisfied (it completed as soon as it was "
                                "woken spuriously): a notification is missing "
                                "(cap=%zu)",
                                line.c_str(), wlen_req, m->cap);
            }
        }
        // ---- epilogue: drain everything; the writer must get through
        if (m->unmap_due) {
            m->unmap_due = false;
            channel_write_unmap(&m->ch);
        }
        if (!m->accepting) {
            channel_accept_writes(&m->ch, 1);
            m->accepting = true;
            settle();
            collect();
        }
        auto drain_all = [&]() {
            for (int i = 0; i < nreaders; ++i) {
                ReaderM& r = m->rd[i];
                if (!r.started)
                    continue;
                if (r.mapped)
                    do_runmap(*m, i, "all");
                int calls = 0;
                for (;;) {
                    do_rmap(*m, i);
                    ++calls;
                    if (!r.mapped)
                        break;
                    do_runmap(*m, i, "all");
                    if (calls > 4)
                        oracle_fail("C03.drain_not_bounded",
                                    "reader %d needed more than 4 read_map "
                                    "calls to reach the drained state with an "
                                    "idle writer",
                                    i);
                }
                if (r.cursor != m->S_ret)
                    oracle_fail("C01.drain_incomplete",
                                "reader %d drained at stream offset %llu but "
                                "%llu bytes are committed",
                                i, (unsigned long long)r.cursor,
                                (unsigned long long)m->S_ret);
                settle();
                collect();
            }
        };
        drain_all();
        if (mb->busy) {
            oracle_fail("C03.blocked_after_release",
                        "write_map(%zu) (capacity %zu) is still blocked after "
                        "every reader consumed everything committed: %s",
                        wlen_req, m->cap, wait_graph().c_str());
        }
        if (m->pending) {
            do_commit(*m);
            drain_all();
        }
        // stop the helper
        sim_pthread_mutex_lock(&mb->mu);
        mb->req = 2;
        sim_pthread_cond_broadcast(&mb->cv);
        sim_pthread_mutex_unlock(&mb->mu);
        join(wt);
        hash_u64(m->S_inv);
        free(m->ch.data);
        delete mb;
        delete m;
    }

    // ------------------------------------------------------- free-running
    void exec_free(const Plan& plan)
    {
        begin_run(sched_of(plan));
        set_deadlock_oracle("C03.deadlock");
        Model* m = new Model();
        m->free_running = true;
        m->cap = (size_t)plan.geti("cap", 64);
        if (m->cap < 2)
            m->cap = 2;
        m->salt = mix64(plan.seed, 0xb17e);
        real_channel_new(&m->ch, m->cap);
        int nreaders = (int)plan.geti("readers", 1);
        if (nreaders < 1)
            nreaders = 1;
        if (nreaders > 8)
            nreaders = 8;
        std::vector<Op> wops, tops;
        std::vector<std::vector<Op>> rops((size_t)nreaders);
        std::vector<int> rstop((size_t)nreaders, -1);
        for (auto& line : plan.ops) {
            Op op = parse_op(line);
            if (op.name == "w")
                wops.push_back(op);
            else if (op.name == "r")
                rops[(size_t)(op.i("r") % nreaders)].push_back(op);
            else if (op.name == "rstop")
                rstop[(size_t)(op.i("r") % nreaders)] = (int)op.i("hold");
            else if (op.name == "t")
                tops.push_back(op);
        }
        bool writer_done = false;
        bool toggler_done = tops.empty();
        int wt_id = -1;

        // All threads blocked: the writer sleeps in write_map and nobody is
        // left to act.  That is a violation only if the model says the writer
        // must have been released: a refusal was issued and has returned, or
        // every reader has consumed everything committed.  Otherwise the
        // workload itself starved the writer (a reader stopped for good
        // without consuming), which the property allows.
        bool poked = false;
        size_t blocked_n = 0; // size of the request write_map is working on
        set_deadlock_hook([&, m](const std::string& graph) -> bool {
            if (toggler_done && !m->accepting)
                oracle_fail("C03.refusal_does_not_release_writer",
                            "channel_accept_writes(0) has returned but the "
                            "writer still sleeps in write_map: %s",
                            graph.c_str());
            // give the sleeping writer one spurious wake-up: if it then
            // completes its write_map, it slept although the request fitted
            if (!poked && poke_cond_waiter(wt_id)) {
                poked = true;
                return true;
            }
            bool all_drained = m->exact;
            for (int i = 0; i < nreaders; ++i) {
                ReaderM& r = m->rd[i];
                if (!r.started)
                    continue;
                if (!r.cursor_known || r.mapped || r.cursor != m->S_ret)
                    all_drained = false;
            }
            if (all_drained)
                oracle_fail("C03.blocked_after_release",
                            "every reader consumed everything committed but "
                            "the writer still sleeps in write_map: %s",
                            graph.c_str());
            int fit = model_fits(*m, blocked_n);
            if (fit == 1)
                oracle_fail("C03.blocked_although_request_fits",
                            "the writer sleeps in write_map(%zu) with the head "
                            "at ring offset %u of %zu although the readers "
                            "have consumed enough for the request to fit: %s",
                            blocked_n, m->head_addr, m->cap, graph.c_str());
            probe(fit == 0 ? "n.starved_no_room" : "n.starved_undecided");
            probe("n.workload_starved_writer");
            finish_ok();
            return false;
        });

        // The same question at every quiescent instant (all threads blocked
        // or asleep, none of them inside a channel call except the writer in
        // its wait): every release has been announced by then, so a writer
        // still waiting for a request that fits will wait for ever unless
        // something unrelated happens.
        set_idle_hook([&, m] {
            if (wt_id < 0 || m->in_call || !m->accepting || m->refuse_invoked ||
                strcmp(block_reason(wt_id), "cond") != 0)
                return;
            probe("n.quiescent_with_writer_waiting");
            if (model_fits(*m, blocked_n) == 1)
                oracle_fail("C03.blocked_although_request_fits",
                            "the writer waits in write_map(%zu) with the head "
                            "at ring offset %u of %zu while every other "
                            "thread is asleep outside the channel, although "
                            "the readers have consumed enough for the request "
                            "to fit",
                            blocked_n, m->head_addr, m->cap);
        });

        int budget = expect_progress("C03.writer_never_finishes",
                                     "writer thread completes its program",
                                     400000);
        bool& poked_ref = poked;
        int wt = spawn("writer", [&, m] {
            for (auto& op : wops) {
                size_t n = resolve_size(*m, op.s("n", "1"));
                probe("n.write_maps");
                uint64_t w0 = probe_value("k.cond_waits");
                blocked_n = n;
                void* p = channel_write_map(&m->ch, n);
                probe("n.write_maps_returned");
                if (probe_value("k.cond_waits") > w0)
                    probe("reach.writer_blocked");
                bool was_poked = poked_ref;
                poked_ref = false;
                if (was_poked && p)
                    oracle_fail("C03.missed_wakeup",
                                "write_map(%zu) slept while every other thread "
                                "was blocked or finished, and completed as "
                                "soon as it was woken spuriously: its request "
                                "fitted but no notification reached it "
                                "(cap=%zu)",
                                n, m->cap);
                if (!p && n >= m->cap) {
                    probe("reach.oversize_request");
                    continue; // can never fit: correctly turned down
                }
                if (p && n >= m->cap)
                    oracle_fail("C03.oversize_request_not_refused",
                                "write_map(%zu) on a ring of %zu bytes was "
                                "granted",
                                n, m->cap);
                if (!p) {
                    if (!m->refuse_invoked)
                        oracle_fail("C03.null_while_accepting",
                                    "write_map(%zu) returned no region although "
                                    "no refusal was ever requested (cap %zu)",
                                    n, m->cap);
                    probe("reach.write_refused");
                    continue;
                }
                on_write_mapped(*m, (uint8_t*)p, n);
                if (op.i("pause"))
                    sleep_ns((uint64_t)op.i("pause") * 1000);
                if (op.i("abort")) {
                    do_abort(*m);
                } else if (m->refuse_invoked) {
                    // the commit races a refusal: whether it takes effect is
                    // unknown, so exact stream checks end here
                    probe("reach.commit_races_refusal");
                    m->exact = false;
                    m->pending = false;
                    channel_write_unmap(&m->ch);
                } else {
                    do_commit(*m);
                    // a refusal invoked while write_unmap was in progress
                    // makes the commit's effect uncertain as well
                    if (m->refuse_invoked) {
                        probe("reach.commit_races_refusal");
                        m->exact = false;
                    }
                }
            }
            writer_done = true;
        });
        wt_id = wt;
        std::vector<int> rts;
        for (int i = 0; i < nreaders; ++i) {
            std::string nm = "reader" + std::to_string(i);
            rts.push_back(spawn(nm.c_str(), [&, i, m] {
                for (auto& op : rops[(size_t)i]) {
                    do_rmap(*m, i);
                    if (op.i("hold"))
                        sleep_ns((uint64_t)op.i("hold") * 1000);
                    if (m->rd[i].mapped)
                        do_runmap(*m, i, op.s("k", "all"));
                    if (op.i("pause"))
                        sleep_ns((uint64_t)op.i("pause") * 1000);
                    else
                        yield_point("reader");
                }
                if (rstop[(size_t)i] >= 0) {
                    // stops for good; optionally while holding a region
                    if (rstop[(size_t)i] == 1) {
                        do_rmap(*m, i);
                        probe("reach.reader_stops_holding");
                    }
                    return;
                }
                // keep draining until the writer is done
                for (;;) {
                    bool done_before = writer_done;
                    do_rmap(*m, i);
                    if (m->rd[i].mapped) {
                        do_runmap(*m, i, "all");
                    } else {
                        if (done_before)
                            break;
                        sleep_ns(20000);
                    }
                }
            }));
        }
        int tt = -1;
        if (!tops.empty()) {
            tt = spawn("toggler", [&, m] {
                for (auto& op : tops) {
                    sleep_ns((uint64_t)op.i("at") * 1000);
                    int v = (int)op.i("v");
                    if (!v)
                        m->refuse_invoked = true;
                    ++m->in_call;
                    channel_accept_writes(&m->ch, (uint32_t)v);
                    --m->in_call;
                    if (!v)
                        probe("n.refusals");
                    m->accepting = v != 0;
                }
                toggler_done = true;
            });
        }
        join(wt);
        progress_done(budget);
        for (int t : rts)
            join(t);
        if (tt >= 0)
            join(tt);
        // final exactness for readers that drained (no refusal races)
        if (m->exact) {
            for (int i = 0; i < nreaders; ++i) {
                if (rstop[(size_t)i] >= 0 || !m->rd[i].started ||
                    !m->rd[i].cursor_known)
                    continue;
                if (m->rd[i].cursor != m->S_ret)
                    oracle_fail("C01.drain_incomplete",
                                "reader %d drained at stream offset %llu but "
                                "%llu bytes are committed",
                                i, (unsigned long long)m->rd[i].cursor,
                                (unsigned long long)m->S_ret);
            }
        }
        hash_u64(m->S_inv);
        free(m->ch.data);
        delete m;
    }
};

static ChanHarness g_chan;

struct Reg
{
    Reg()
    {
        register_harness(&g_chan);
        std::vector<std::string> real = {
            "acquire-video-runtime/src/runtime/channel.c",
            "acquire-core-libs/src/acquire-core-platform/linux/platform.c "
            "(lock, condition variable, thread, memory_alloc)"
        };
        std::vector<std::string> stub = {
            "pthread mutex/cond/create/join, clock_gettime, nanosleep: "
            "simulation kernel (sim/kernel.cpp)",
            "writer and readers: harness threads driving the public channel "
            "API"
        };
        CheckSpec c;
        c.property = "C01";
        c.harness = "chan";
        c.level = "exploration";
        c.design_ref = "DESIGN.md section 4, C01";
        c.technique =
          "deterministic simulation: seeded operation sequences and schedules "
          "against an exact reference model of the byte stream";
        c.rule =
          "a case is one generated plan (capacity, reader count, operation "
          "sequence or per-thread programs, schedule); non-trivial = the "
          "writer wrapped around the ring at least once and at least one "
          "reader mapped a non-empty region; distinct = distinct run "
          "fingerprint (hash of every operation result and scheduling "
          "decision)";
        c.profiles = { { "seq", 60000, 1200000, false },
                       { "free", 8000, 160000, false } };
        c.real_components = real;
        c.stub_components = stub;
        c.assumptions = {
            "readers are well behaved: map and unmap strictly alternate",
            "single writer with at most one outstanding write",
            "write sizes are below the capacity",
            "interleavings are sequentially consistent"
        };
        c.reach_probes = { "reach.wraps",
                           "reach.partial_consume",
                           "reach.join_with_pending_write",
                           "reach.eight_readers",
                           "reach.writer_blocked",
                           "reach.write_ends_at_capacity",
                           "reach.read_ends_at_capacity",
                           "reach.commit_while_refusing" };
        register_check(c);
        c.property = "C02";
        c.design_ref = "DESIGN.md section 4, C02";
        c.technique =
          "deterministic simulation: shadow ownership map of the ring checked "
          "at every write_map return; mapped regions re-verified byte for "
          "byte";
        register_check(c);
        c.property = "C03";
        c.design_ref = "DESIGN.md section 4, C03";
        c.technique =
          "deterministic simulation: seeded schedules with a preemption point "
          "inside cond_wait before enqueueing; deadlock and step-budget "
          "liveness detection";
        c.rule =
          "a case is one generated plan (capacity, writer/reader/toggler "
          "programs, schedule, buggify subset); non-trivial = the writer "
          "actually blocked inside write_map at least once; distinct = "
          "distinct run fingerprint";
        c.profiles = { { "seq", 30000, 600000, false },
                       { "release", 12000, 240000, false },
                       { "refuse", 18000, 360000, false } };
        c.reach_probes = { "reach.writer_blocked", "reach.write_refused",
                           "k.broadcast_no_waiters",
                           "reach.reader_stops_holding",
                           "k.spurious_wakeups",
                           "n.quiescent_with_writer_waiting" };
        register_check(c);
    }
} g_reg;

} // namespace
