// Harness `stor`: the real storage devices of the common driver (raw, tiff,
// tiff-json, trash) driven through the real HAL storage_* functions, the
// real device manager/loader and the real write-all loop of platform.c, on
// the simulated file layer.  Serves C14, C15, C16.  DESIGN.md section 4.
#include "../sim/files.h"
#include "../sim/harness.h"
#include "../sim/seams.h"
#include "../sim/super.h"
#include "../world/bigtiff.h"

#include <algorithm>
#include <stdio.h>
#include <stdlib.h>
#include <string.h>
#include <sys/mman.h>
#include <sys/stat.h>
#include <unistd.h>

extern "C"
{
#include "device/hal/device.manager.h"
#include "device/hal/storage.h"
#include "device/props/components.h"
#include "device/props/storage.h"
}

using namespace sim;

namespace {

static void
quiet_reporter(int is_error, const char* file, int line, const char*,
               const char* msg)
{
    const char* base = strrchr(file, '/');
    logline("%s%s:%d %s", is_error ? "E " : "", base ? base + 1 : file, line,
            msg);
}

static std::string
hex_enc(const std::string& s)
{
    static const char* d = "0123456789abcdef";
    std::string o;
    for (unsigned char c : s) {
        o += d[c >> 4];
        o += d[c & 15];
    }
    return o;
}

static std::string
hex_dec(const std::string& h)
{
    std::string o;
    for (size_t i = 0; i + 1 < h.size(); i += 2)
        o += (char)strtol(h.substr(i, 2).c_str(), nullptr, 16);
    return o;
}

static size_t
bpp(int t)
{
    switch (t) {
        case SampleType_u8:
        case SampleType_i8:
            return 1;
        case SampleType_f32:
            return 4;
        default:
            return 2;
    }
}

struct FrameM
{
    uint32_t w, h;
    int type;
    uint64_t frame_id, hw_id, ts_hw, ts_rt;
    std::vector<uint8_t> pixels; // exactly w*h*bpp bytes
    // a huge frame: big_n zero bytes except the marks (position, value)
    uint64_t big_n = 0;
    std::vector<std::pair<uint64_t, uint8_t>> marks;
};

// expected non-zero content of a (huge) file: everything else reads as zero
struct Ext
{
    uint64_t off;
    std::vector<uint8_t> bytes;
};

struct SimBytes : bigtiff::Bytes
{
    std::string path;
    explicit SimBytes(const std::string& p)
      : path(p)
    {
    }
    uint64_t size() const override
    {
        uint64_t n = simfs::size(path);
        return n == UINT64_MAX ? 0 : n;
    }
    void read(uint64_t off, uint64_t n, uint8_t* out) const override
    {
        simfs::read(path, off, n, out);
    }
};

// Compares the file range [off, off+len) with "zero except exts" (exts sorted
// by offset, absolute file offsets).  Returns UINT64_MAX if equal, otherwise
// the offset of the first difference.
static uint64_t
compare_sparse(const std::string& path, uint64_t off, uint64_t len,
               const std::vector<Ext>& exts)
{
    static const uint64_t BLK = 1ull << 20;
    std::vector<uint8_t> got((size_t)BLK), want((size_t)BLK);
    size_t e0 = 0;
    for (uint64_t b = off; b < off + len; b += BLK) {
        uint64_t k = std::min(BLK, off + len - b);
        bool backed = simfs::read(path, b, k, got.data());
        while (e0 < exts.size() && exts[e0].off + exts[e0].bytes.size() <= b)
            ++e0;
        bool any = false;
        for (size_t e = e0; e < exts.size() && exts[e].off < b + k; ++e) {
            if (!any) {
                memset(want.data(), 0, (size_t)k);
                any = true;
            }
            uint64_t a = std::max(b, exts[e].off);
            uint64_t z = std::min(b + k, exts[e].off + exts[e].bytes.size());
            memcpy(want.data() + (a - b), exts[e].bytes.data() + (a - exts[e].off),
                   (size_t)(z - a));
        }
        if (!backed && !any)
            continue; // a hole where zeros are expected
        if (!any)
            memset(want.data(), 0, (size_t)k);
        if (memcmp(got.data(), want.data(), (size_t)k) != 0) {
            uint64_t d = 0;
            while (got[(size_t)d] == want[(size_t)d])
                ++d;
            return b + d;
        }
    }
    return UINT64_MAX;
}

struct Slot
{
    std::string kind; // raw | tiff | tiffjson | trash
    struct Storage* dev = nullptr;
    bool configured = false;
    std::string path;  // normalised path the device writes (file or dir)
    std::string meta;  // user's metadata text ("" = none)
    bool started = false;
    std::vector<uint8_t> cycle_bytes; // raw: everything appended this cycle
    bool big = false;                 // huge mode: cycle_exts/cycle_len instead
    std::vector<Ext> cycle_exts;
    uint64_t cycle_len = 0;
    std::vector<FrameM> cycle_frames;
    uint64_t next_frame_id = 0;
    int cycles = 0;
    bool can_restart = false; // stopped cleanly with a valid configuration
    bool write_failed = false; // the last append reported a write failure
    // every call of this cycle reported success so far and no injected
    // failure landed in set/start (then the file must be exact at stop)
    bool cycle_clean = false;
    bool absorbed = false; // a failing write inside an append went unreported
};

struct FaultSpec
{
    bool on = false;
    std::string call; // pwrite | open | flock | close
    uint64_t ord = 0;
    std::string kind; // see apply_fault
};

struct Counts
{
    uint64_t pwrite = 0, open = 0, flock = 0, close = 0;
};

static void
apply_fault(const FaultSpec& f)
{
    if (!f.on)
        return;
    using namespace simfs;
    auto add = [&](uint64_t ord, int kind, int64_t arg = 0) {
        add_fault(Fault{ f.call, ord, kind, arg });
    };
    if (f.kind == "eintr")
        add(f.ord, F_EINTR);
    else if (f.kind == "eagain")
        add(f.ord, F_EAGAIN);
    else if (f.kind == "eio")
        add(f.ord, F_EIO);
    else if (f.kind == "enospc")
        add(f.ord, F_ENOSPC);
    else if (f.kind == "eio1")
        add(f.ord, F_EIO_ONCE);
    else if (f.kind == "zero3") {
        add(f.ord, F_ZERO);
        add(f.ord + 1, F_ZERO);
        add(f.ord + 2, F_ZERO);
    } else if (f.kind == "eacces")
        add(f.ord, F_OPEN_EACCES);
    else if (f.kind == "enoent")
        add(f.ord, F_OPEN_ENOENT);
    else if (f.kind == "emfile")
        add(f.ord, F_OPEN_EMFILE);
    else if (f.kind == "flock")
        add(f.ord, F_FLOCK_FAIL);
    else if (f.kind == "closeeio")
        add(f.ord, F_CLOSE_EIO);
}

static bool
json_equal(const bigtiff::Json& a, const bigtiff::Json& b)
{
    if (a.kind != b.kind)
        return false;
    switch (a.kind) {
        case bigtiff::Json::Number:
            return a.raw == b.raw;
        case bigtiff::Json::String:
            return a.str == b.str;
        case bigtiff::Json::Bool:
            return a.b == b.b;
        case bigtiff::Json::Array:
            if (a.arr.size() != b.arr.size())
                return false;
            for (size_t i = 0; i < a.arr.size(); ++i)
                if (!json_equal(a.arr[i], b.arr[i]))
                    return false;
            return true;
        case bigtiff::Json::Object:
            if (a.obj.size() != b.obj.size())
                return false;
            for (size_t i = 0; i < a.obj.size(); ++i)
                if (a.obj[i].first != b.obj[i].first ||
                    !json_equal(a.obj[i].second, b.obj[i].second))
                    return false;
            return true;
        default:
            return true;
    }
}

// ------------------------------------------------------------- C15 oracle
// `frames`: what the chain must hold, in order; at least `min_n` of them (all
// of them for a finished acquisition; after a failed append only the
// acknowledged ones must be there, frames of the failed packet may follow).
// `ov`: report under this oracle id instead of the C15 ones (C16 uses the same
// judgement for "a failed write was reported by nobody and the data is gone").
static void
check_tiff(const Slot& s, const std::string& file, bool expect_metadata_in_tiff,
           const std::vector<FrameM>& frames, size_t min_n,
           const char* ov = nullptr)
{
    if (!simfs::exists(file))
        oracle_fail(ov ? ov : "C15.file_missing", "%s: no file was written at %s",
                    s.kind.c_str(), file.c_str());
    SimBytes sb(file);
    const SimBytes* bytes = &sb;
    bigtiff::File t = bigtiff::parse(*bytes);
    if (!t.error.empty())
        oracle_fail(ov ? ov : "C15.invalid_bigtiff",
                    "%s (%zu frames appended, %llu bytes): %s", file.c_str(),
                    frames.size(), (unsigned long long)bytes->size(),
                    t.error.c_str());
    if (t.ifds.size() < min_n || t.ifds.size() > frames.size())
        oracle_fail(ov ? ov : "C15.directory_count",
                    "%s: the directory chain has %zu entries but %zu frames "
                    "were appended%s",
                    file.c_str(), t.ifds.size(), min_n,
                    min_n == frames.size()
                      ? ""
                      : " and acknowledged before an append failed");
    for (size_t i = 0; i < t.ifds.size(); ++i) {
        const bigtiff::Ifd& d = t.ifds[i];
        const FrameM& f = frames[i];
        uint64_t w = 0, h = 0, bits = 0, fmt = 0, so = 0, sc = 0;
        if (!d.scalar(256, *bytes, &w) || !d.scalar(257, *bytes, &h) ||
            !d.scalar(258, *bytes, &bits) || !d.scalar(339, *bytes, &fmt) ||
            !d.scalar(273, *bytes, &so) || !d.scalar(279, *bytes, &sc))
            oracle_fail(ov ? ov : "C15.missing_tag",
                        "%s directory %zu lacks one of width/height/bits per "
                        "sample/sample format/strip offset/strip byte count",
                        file.c_str(), i);
        uint64_t want_fmt = f.type == SampleType_f32
                              ? 3
                              : (f.type == SampleType_i8 ||
                                     f.type == SampleType_i16
                                   ? 2
                                   : 1);
        if (w != f.w || h != f.h || bits != 8 * bpp(f.type) || fmt != want_fmt)
            oracle_fail(ov ? ov : "C15.wrong_image_description",
                        "%s directory %zu says %llux%llu, %llu bits, format "
                        "%llu but frame %zu is %ux%u, %zu bits, format %llu",
                        file.c_str(), i, (unsigned long long)w,
                        (unsigned long long)h, (unsigned long long)bits,
                        (unsigned long long)fmt, i, f.w, f.h, 8 * bpp(f.type),
                        (unsigned long long)want_fmt);
        if (f.big_n) {
            std::vector<Ext> ex;
            for (auto& m : f.marks)
                ex.push_back(Ext{ so + m.first, { m.second } });
            uint64_t d = sc < f.big_n ? so
                                      : compare_sparse(file, so, f.big_n, ex);
            if (d != UINT64_MAX)
                oracle_fail(ov ? ov : "C15.wrong_pixels",
                            "%s directory %zu: the strip (%llu bytes at %llu) "
                            "does not return frame %zu's %llu pixel bytes "
                            "unchanged (first difference at file offset %llu)",
                            file.c_str(), i, (unsigned long long)sc,
                            (unsigned long long)so, i,
                            (unsigned long long)f.big_n, (unsigned long long)d);
        }
        std::vector<uint8_t> strip(f.pixels.size());
        if (!f.big_n && sc >= f.pixels.size())
            bytes->read(so, strip.size(), strip.data());
        if (!f.big_n &&
            (sc < f.pixels.size() ||
             memcmp(strip.data(), f.pixels.data(), f.pixels.size()) != 0))
            oracle_fail(ov ? ov : "C15.wrong_pixels",
                        "%s directory %zu: the strip (%llu bytes at %llu) does "
                        "not return frame %zu's %zu pixel bytes unchanged",
                        file.c_str(), i, (unsigned long long)sc,
                        (unsigned long long)so, i, f.pixels.size());
        const bigtiff::Entry* de = d.find(270);
        if (!de || de->type != 2)
            oracle_fail(ov ? ov : "C15.no_description",
                        "%s directory %zu has no ASCII ImageDescription",
                        file.c_str(), i);
        std::string desc = bigtiff::ascii(*de, *bytes);
        bigtiff::Json j;
        std::string err;
        if (!bigtiff::parse_json(desc, &j, &err) ||
            j.kind != bigtiff::Json::Object)
            oracle_fail(ov ? ov : "C15.description_not_json",
                        "%s directory %zu: description is not a JSON object "
                        "(%s): %.200s",
                        file.c_str(), i, err.c_str(), desc.c_str());
        auto num = [&](const bigtiff::Json* o, const char* k) -> std::string {
            const bigtiff::Json* v = o ? o->get(k) : nullptr;
            return v && v->kind == bigtiff::Json::Number ? v->raw : "?";
        };
        const bigtiff::Json* ts = j.get("timestamps");
        if (num(&j, "frame_id") != std::to_string(f.frame_id) ||
            num(&j, "hardware_frame_id") != std::to_string(f.hw_id) ||
            num(ts, "runtime") != std::to_string(f.ts_rt) ||
            num(ts, "hardware") != std::to_string(f.ts_hw))
            oracle_fail(ov ? ov : "C15.wrong_ids_in_description",
                        "%s directory %zu: description %.200s does not carry "
                        "frame_id=%llu hardware_frame_id=%llu runtime=%llu "
                        "hardware=%llu",
                        file.c_str(), i, desc.c_str(),
                        (unsigned long long)f.frame_id,
                        (unsigned long long)f.hw_id,
                        (unsigned long long)f.ts_rt,
                        (unsigned long long)f.ts_hw);
        if (i == 0 && expect_metadata_in_tiff && !s.meta.empty()) {
            bigtiff::Json user;
            if (bigtiff::parse_json(s.meta, &user, &err)) {
                const bigtiff::Json* m = j.get("metadata");
                if (!m || !json_equal(*m, user))
                    oracle_fail(ov ? ov : "C15.metadata_missing",
                                "%s: the first frame's description %.200s "
                                "does not carry the user's metadata %s",
                                file.c_str(), desc.c_str(), s.meta.c_str());
            }
        }
        if (i == 0 && expect_metadata_in_tiff && s.meta.empty() &&
            j.get("metadata"))
            oracle_fail(ov ? ov : "C15.stale_metadata",
                        "%s: no metadata was configured for this acquisition "
                        "but the first frame carries some: %.200s",
                        file.c_str(), desc.c_str());
    }
}

struct StorHarness : Harness
{
    const char* name() const override { return "stor"; }
    int batch(const std::string& p) const override
    {
        return p == "C16" ? 4 : 50;
    }
    int batch(const std::string& p, const std::string& profile) const override
    {
        return profile == "huge" ? 1 : batch(p);
    }

    bool nontrivial(const std::string& property,
                    const std::map<std::string, uint64_t>& p) const override
    {
        auto g = [&](const char* k) {
            auto it = p.find(k);
            return it == p.end() ? (uint64_t)0 : it->second;
        };
        if (property == "C16")
            return g("n.fault_subruns") > 0;
        return g("n.cycles_checked") > 0 && g("n.frames_appended") > 0;
    }

    // ------------------------------------------------------ generation
    static std::string gen_append(Rng& g, bool may_unpad = false)
    {
        char b[160];
        if (may_unpad && g.chance(0.3)) {
            snprintf(b, sizeof(b),
                     "append slot=%%d nf=%d w=%d h=%d t=%d vary=%d id=%llu nopad=1",
                     (int)g.range(1, 5), (int)g.range(1, 14), (int)g.range(1, 9),
                     (int)g.below(8), g.chance(0.4) ? 1 : 0,
                     (unsigned long long)g.below(1000000));
            return b;
        }
        snprintf(b, sizeof(b), "append slot=%%d nf=%d w=%d h=%d t=%d vary=%d id=%llu",
                 (int)g.range(1, 5), (int)g.range(1, 14), (int)g.range(1, 9),
                 (int)g.below(8), g.chance(0.4) ? 1 : 0,
                 (unsigned long long)g.below(1000000));
        return b;
    }

    static void gen_cycle(Rng& g, std::vector<std::string>& ops, int slot,
                          const std::string& kind, int cyc, bool close_running,
                          bool set_while_running = false)
    {
        char b[256];
        static const char* uris[] = { "rel", "filerel", "abs", "fileabs" };
        const char* meta = "none";
        int mk = (int)g.below(4);
        if (kind == "tiffjson" && mk < 2 && g.chance(0.8))
            mk = 2;
        if (mk == 1)
            meta = "empty";
        std::string ms = meta;
        if (mk >= 2)
            ms = "json" + std::to_string(g.below(100000));
        // what this slot was configured with in its previous cycle (the plan
        // generator is re-entered per plan; the state is reset when cyc == 0)
        static std::string prev_name[2], prev_uri[2];
        if (cyc == 0) {
            prev_name[slot % 2].clear();
            prev_uri[slot % 2].clear();
        }
        std::string uri = uris[g.below(4)];
        std::string plain_name = "f" + std::to_string(slot) + "_" + std::to_string(cyc);
        bool extend_prev = !prev_name[slot % 2].empty() && g.chance(0.15);
        if (extend_prev)
            uri = prev_uri[slot % 2]; // same spelling, so that the new path
                                      // starts with the whole previous path
        snprintf(b, sizeof(b), "set slot=%d uri=%s name=%s meta=%s px=%d py=%d",
                 slot, uri.c_str(), plain_name.c_str(), ms.c_str(),
                 (int)g.below(4), (int)g.below(4));
        std::string setline = b;
        std::string this_name = plain_name;
        if (extend_prev) {
            // "stack.raw" then "stack.raw.2": the previous output's full name
            // is a proper prefix of the new one
            const char* ext = kind == "raw" ? ".raw" : (kind == "tiffjson" ? "" : ".tif");
            this_name = prev_name[slot % 2] + ext + "." + std::to_string(cyc);
            setline += " nameh=" + hex_enc(this_name);
        } else if (g.chance(0.3)) {
            // file names of any length with characters that mean something to
            // URI and format handling (the slot/cycle suffix keeps them fresh)
            static const char* alphabet = "abfile:%. -_+~#@!,=()[]{}&'";
            std::string nm;
            int len = g.chance(0.2) ? (int)g.range(60, 180) : (int)g.range(0, 12);
            for (int i = 0; i < len; ++i)
                nm += alphabet[g.below(strlen(alphabet))];
            if (g.chance(0.2))
                nm = "file:" + nm;
            nm += "_" + std::to_string(slot) + "_" + std::to_string(cyc);
            setline += " nameh=" + hex_enc(nm);
            this_name = nm;
        }
        prev_name[slot % 2] = this_name;
        prev_uri[slot % 2] = uri;
        if (set_while_running) {
            setline += " force=1"; // the previous cycle was not stopped
            if (g.chance(0.3)) {
                // ... and first with a target that cannot be created: the
                // set is refused, the interrupted file must be whole all the
                // same, and the device can be configured properly afterwards
                snprintf(b, sizeof(b),
                         "set slot=%d uri=nodir name=%s meta=%s px=1 py=1 force=1",
                         slot, plain_name.c_str(), ms.c_str());
                ops.push_back(b);
            }
        }
        ops.push_back(setline);
        // frame ids are the caller's: they need not start at 0 in a file
        snprintf(b, sizeof(b), "start slot=%d fid=%llu", slot,
                 (unsigned long long)(g.chance(0.5) ? 0 : g.below(100000)));
        ops.push_back(b);
        int na = (int)g.range(1, 5);
        int again_at = g.chance(0.1) ? (int)g.below((uint64_t)na + 1) : -1;
        for (int i = 0; i < na; ++i) {
            if (i == again_at) {
                // a second start on a device that is already running is
                // refused and changes nothing
                snprintf(b, sizeof(b), "startagain slot=%d", slot);
                ops.push_back(b);
            }
            std::string a = gen_append(g, kind == "raw");
            snprintf(b, sizeof(b), a.c_str(), slot);
            ops.push_back(b);
        }
        if (!close_running) {
            snprintf(b, sizeof(b), "stop slot=%d", slot);
            ops.push_back(b);
            if (g.chance(0.25)) {
                // the user moves the output away and acquires again with the
                // same configuration (start without a new set)
                snprintf(b, sizeof(b), "restart slot=%d fid=%llu", slot,
                         (unsigned long long)(g.chance(0.5) ? 0
                                                            : g.below(100000)));
                ops.push_back(b);
                int nb = (int)g.range(1, 3);
                for (int i = 0; i < nb; ++i) {
                    std::string a = gen_append(g, kind == "raw");
                    snprintf(b, sizeof(b), a.c_str(), slot);
                    ops.push_back(b);
                }
                snprintf(b, sizeof(b), "stop slot=%d", slot);
                ops.push_back(b);
            }
        }
    }

    Plan generate(uint64_t seed, const std::string& property,
                  const std::string& profile) override
    {
        Plan p;
        p.harness = "stor";
        p.property = property;
        p.profile = profile;
        p.seed = seed;
        p.seti("sched.strategy", ST_DEFAULT);
        Rng g(mix64(seed, 0x5107));
        char b[128];
        if (profile == "sweep" || profile == "transient") {
            static const char* kinds[] = { "raw", "tiff", "tiffjson", "trash" };
            std::string kind = kinds[g.below(4)];
            if (kind == "trash" && g.chance(0.7))
                kind = kinds[g.below(3)];
            int shape = (int)g.below(8);
            if (profile == "transient") {
                // C14/C15 under write faults: plain acquisitions of the
                // property's own device kinds
                kind = property == "C14" ? "raw"
                                         : (g.chance(0.5) ? "tiff" : "tiffjson");
                shape = (int)g.range(2, 4);
            }
            snprintf(b, sizeof(b), "open slot=0 kind=%s", kind.c_str());
            p.ops.push_back(b);
            if (shape == 6) {
                // a second stream's device takes over the descriptor numbers
                // this device has released: a stale close or write would hit
                // a descriptor that now belongs to the other device
                gen_cycle(g, p.ops, 0, kind, 0, false);
                p.ops.push_back("open slot=1 kind=raw");
                p.ops.push_back(
                  "set slot=1 uri=abs name=other0 meta=none px=1 py=1");
                p.ops.push_back("start slot=1");
                p.ops.push_back("append slot=1 nf=2 w=5 h=3 t=0 vary=0 id=77");
                if (g.chance(0.5))
                    gen_cycle(g, p.ops, 0, kind, 1, g.chance(0.3));
                p.ops.push_back("close slot=0");
                p.ops.push_back("append slot=1 nf=1 w=5 h=3 t=0 vary=0 id=78");
                p.ops.push_back("stop slot=1");
                p.ops.push_back("close slot=1");
            } else if (shape == 7) {
                // configured again while running, then (perhaps) started and
                // stopped, or closed as it is
                gen_cycle(g, p.ops, 0, kind, 0, true);
                snprintf(b, sizeof(b),
                         "set slot=0 uri=%s name=again0 meta=%s px=1 py=1 force=1",
                         g.chance(0.5) ? "rel" : "fileabs",
                         kind == "tiffjson" || g.chance(0.5) ? "json5" : "none");
                p.ops.push_back(b);
                if (g.chance(0.7)) {
                    p.ops.push_back("start slot=0 fid=0");
                    std::string a = gen_append(g);
                    snprintf(b, sizeof(b), a.c_str(), 0);
                    p.ops.push_back(b);
                    if (g.chance(0.7))
                        p.ops.push_back("stop slot=0");
                }
            } else
            if (shape == 0) {
                // open - close
            } else if (shape == 1) {
                p.ops.push_back("set slot=0 uri=rel name=a0 meta=none px=1 py=1");
            } else if (shape == 5) {
                // close while running
                gen_cycle(g, p.ops, 0, kind, 0, true);
            } else {
                int cycles = shape == 4 ? 2 : 1;
                for (int c = 0; c < cycles; ++c)
                    gen_cycle(g, p.ops, 0, kind, c, false);
                if (shape == 3) {
                    // operations after a failure
                    std::string a = gen_append(g);
                    snprintf(b, sizeof(b), a.c_str(), 0);
                    p.ops.push_back(b);
                    p.ops.push_back("stop slot=0");
                    if (g.chance(0.5)) {
                        // ... including starting again without a new set
                        p.ops.push_back("startafterfail slot=0");
                        a = gen_append(g);
                        snprintf(b, sizeof(b), a.c_str(), 0);
                        p.ops.push_back(b);
                        p.ops.push_back("stop slot=0");
                    }
                }
            }
            p.ops.push_back("close slot=0");
            p.sets("mode", "sweep");
            static const char* fk[] = { "pwrite:eintr", "pwrite:eagain",
                                        "pwrite:zero3", "pwrite:eio",
                                        "pwrite:enospc", "pwrite:eio1",
                                        "open:eacces", "open:enoent",
                                        "open:emfile", "flock:flock",
                                        "close:closeeio" };
            // one fault kind family per plan keeps the sweep cheap; all are
            // covered across plans
            std::string k = fk[g.below(11)];
            if (profile == "transient")
                k = fk[g.below(6)]; // write faults only
            p.sets("fault", k);
            return p;
        }
        if (profile == "huge") {
            // one acquisition whose file grows past 4 GiB: every running
            // offset leaves the 32-bit range while frames are still appended
            std::string kind = "raw";
            if (property == "C15")
                kind = g.chance(0.5) ? "tiff" : "tiffjson";
            snprintf(b, sizeof(b), "open slot=0 kind=%s", kind.c_str());
            p.ops.push_back(b);
            static const char* uris[] = { "rel", "filerel", "abs", "fileabs" };
            snprintf(b, sizeof(b),
                     "set slot=0 uri=%s name=huge0 meta=%s px=1 py=1",
                     uris[g.below(4)],
                     kind == "tiffjson" || g.chance(0.5) ? "json7" : "none");
            p.ops.push_back(b);
            p.ops.push_back("start slot=0");
            const uint64_t GiB = 1ull << 30;
            uint64_t target = 4 * GiB - (64ull << 20) + g.below(GiB / 2);
            uint64_t total = 0;
            int after = (int)g.range(1, 3); // frames after the crossing
            uint64_t id = g.below(1000000);
            while (after > 0) {
                if (g.chance(0.3)) {
                    std::string a = gen_append(g);
                    snprintf(b, sizeof(b), a.c_str(), 0);
                    p.ops.push_back(b);
                    total += 4096; // rough
                }
                static const uint64_t mibs[] = { 96, 200, 256, 333, 512, 777, 1024 };
                uint64_t mib = total < target ? mibs[g.below(7)]
                                              : (g.chance(0.5) ? 1 : 64);
                uint64_t w = 8 * g.range(512, 4096);
                uint64_t h = std::max<uint64_t>(1, (mib << 20) / w);
                snprintf(b, sizeof(b), "bigappend slot=0 w=%llu h=%llu id=%llu",
                         (unsigned long long)w, (unsigned long long)h,
                         (unsigned long long)id++);
                p.ops.push_back(b);
                if (total >= 4 * GiB)
                    --after;
                total += w * h;
            }
            if (g.chance(0.5)) {
                std::string a = gen_append(g);
                snprintf(b, sizeof(b), a.c_str(), 0);
                p.ops.push_back(b);
            }
            p.ops.push_back("stop slot=0");
            p.ops.push_back("close slot=0");
            p.sets("mode", "huge");
            if (g.chance(0.5))
                p.setd("short_p", 0.3);
            return p;
        }
        // ---- fault-free cycles (C14 raw, C15 tiff / tiff-json)
        std::string kind = "raw";
        if (profile == "tiff")
            kind = g.chance(0.5) ? "tiff" : "tiffjson";
        int nslots = g.chance(0.25) ? 2 : 1;
        for (int s = 0; s < nslots; ++s) {
            snprintf(b, sizeof(b), "open slot=%d kind=%s", s, kind.c_str());
            p.ops.push_back(b);
        }
        int cycles = (int)g.range(1, 4);
        bool cut[2] = { false, false }; // previous cycle left running
        for (int c = 0; c < cycles; ++c)
            for (int s = 0; s < nslots; ++s) {
                // now and then a cycle is not stopped: the device is simply
                // configured for the next file while still running
                bool leave_running = c + 1 < cycles && g.chance(0.08);
                gen_cycle(g, p.ops, s, kind, c, leave_running, cut[s]);
                cut[s] = leave_running;
            }
        for (int s = 0; s < nslots; ++s) {
            snprintf(b, sizeof(b), "close slot=%d", s);
            p.ops.push_back(b);
        }
        p.sets("mode", "cycles");
        // non-failing perturbations of the OS write call
        if (g.chance(0.7)) {
            static const double ps[] = { 0.1, 0.5, 0.9 };
            p.setd("short_p", ps[g.below(3)]);
        }
        if (g.chance(0.3)) {
            // single zero-length writes: the write-all loop gives up after
            // three zero returns inside ONE loop, so zero writes are spaced
            // and not combined with short writes (which multiply the calls
            // per loop)
            p.seti("zero_every", (int64_t)g.range(2, 9));
            p.cfg.erase("short_p");
        }
        return p;
    }

    // -------------------------------------------------------- execution
    struct Ctx
    {
        struct DeviceManager dm = { 0 };
        Slot slot[2];
        bool faults = false; // a fault is injected in this (sub)run
        bool transient = false; // ... one that does not outlast the call it hits
        uint64_t pw0 = 0;
    };

    static std::string user_meta(const std::string& spec)
    {
        if (spec.rfind("json", 0) == 0) {
            std::string id = spec.substr(4);
            return "{\"sample\":\"s" + id + "\",\"n\":" + id +
                   ",\"nested\":{\"a\":[1,2,3]}}";
        }
        return "";
    }

    static void build_packet(Slot& s, const Op& op, std::vector<uint8_t>* out,
                             std::vector<FrameM>* frames)
    {
        Rng r(mix64((uint64_t)op.i("id"), 0xf4a3e));
        int nf = (int)std::max<int64_t>(1, std::min<int64_t>(8, op.i("nf", 1)));
        for (int i = 0; i < nf; ++i) {
            FrameM f;
            f.w = (uint32_t)std::max<int64_t>(1, std::min<int64_t>(64, op.i("w", 4)));
            f.h = (uint32_t)std::max<int64_t>(1, std::min<int64_t>(64, op.i("h", 4)));
            f.type = (int)op.i("t", 0);
            if (f.type < 0 || f.type >= SampleTypeCount)
                f.type = 0;
            if (op.i("vary") && i > 0) {
                f.w = (uint32_t)r.range(1, 14);
                f.h = (uint32_t)r.range(1, 9);
                f.type = (int)r.below(8);
            }
            f.frame_id = s.next_frame_id++;
            f.hw_id = r.next() >> (r.chance(0.5) ? 40 : 1);
            f.ts_hw = r.next() >> (r.chance(0.5) ? 30 : 1);
            f.ts_rt = r.next() >> 2;
            f.pixels.resize((size_t)f.w * f.h * bpp(f.type));
            for (auto& px : f.pixels)
                px = (uint8_t)r.next();
            // the runtime pads every frame to a multiple of 8; a storage
            // device driven directly may be handed unpadded ones (nopad=1)
            size_t img = op.i("nopad", 0) ? f.pixels.size()
                                          : ((f.pixels.size() + 7) & ~(size_t)7);
            size_t off = out->size();
            out->resize(off + sizeof(struct VideoFrame) + img, 0xA5);
            struct VideoFrame hdr;
            memset(&hdr, 0, sizeof(hdr));
            hdr.bytes_of_frame = sizeof(struct VideoFrame) + img;
            hdr.shape.dims = { 1, f.w, f.h, 1 };
            hdr.shape.strides = { 1, 1, (int64_t)f.w, (int64_t)f.w * f.h };
            hdr.shape.type = (enum SampleType)f.type;
            hdr.frame_id = f.frame_id;
            hdr.hardware_frame_id = f.hw_id;
            hdr.timestamps.hardware = f.ts_hw;
            hdr.timestamps.acq_thread = f.ts_rt;
            memcpy(out->data() + off, &hdr, sizeof(hdr));
            memcpy(out->data() + off + sizeof(hdr), f.pixels.data(),
                   f.pixels.size());
            frames->push_back(f);
        }
    }

    // One huge u8 frame: zero pixels except a handful of marks.  The buffer
    // is one lazily mapped anonymous region reused by every huge frame, so
    // the cost is what the file layer spends scanning it.
    static enum DeviceStatusCode big_append(Slot& s, const Op& op,
                                            std::vector<FrameM>* frames,
                                            struct VideoFrame* hdr_out)
    {
        static uint8_t* region = nullptr;
        static const uint64_t REGION = (1ull << 30) + (64ull << 20);
        if (!region) {
            void* m = mmap(nullptr, REGION, PROT_READ | PROT_WRITE,
                           MAP_PRIVATE | MAP_ANONYMOUS | MAP_NORESERVE, -1, 0);
            if (m == MAP_FAILED)
                inconclusive("mmap_failed");
            region = (uint8_t*)m;
        }
        FrameM f;
        f.w = (uint32_t)std::max<int64_t>(8, op.i("w", 8192)) & ~7u;
        uint64_t maxh = ((1ull << 30) / f.w);
        f.h = (uint32_t)std::max<int64_t>(
          1, std::min<int64_t>((int64_t)maxh, op.i("h", 8192)));
        f.type = SampleType_u8;
        Rng r(mix64((uint64_t)op.i("id"), 0xb16f));
        f.frame_id = s.next_frame_id++;
        f.hw_id = r.next() >> 1;
        f.ts_hw = r.next() >> 1;
        f.ts_rt = r.next() >> 2;
        f.big_n = (uint64_t)f.w * f.h;
        f.marks.push_back({ 0, (uint8_t)(1 + r.below(255)) });
        f.marks.push_back({ f.big_n - 1, (uint8_t)(1 + r.below(255)) });
        for (int i = 0; i < 6; ++i)
            f.marks.push_back({ r.below(f.big_n), (uint8_t)(1 + r.below(255)) });
        std::sort(f.marks.begin(), f.marks.end());
        // positions drawn twice keep the later value
        for (size_t i = 1; i < f.marks.size();)
            if (f.marks[i].first == f.marks[i - 1].first)
                f.marks.erase(f.marks.begin() + (long)i - 1);
            else
                ++i;
        struct VideoFrame* hdr = (struct VideoFrame*)region;
        memset(hdr, 0, sizeof(*hdr));
        hdr->bytes_of_frame = sizeof(struct VideoFrame) + f.big_n; // w % 8 == 0
        hdr->shape.dims = { 1, f.w, f.h, 1 };
        hdr->shape.strides = { 1, 1, (int64_t)f.w, (int64_t)f.w * f.h };
        hdr->shape.type = SampleType_u8;
        hdr->frame_id = f.frame_id;
        hdr->hardware_frame_id = f.hw_id;
        hdr->timestamps.hardware = f.ts_hw;
        hdr->timestamps.acq_thread = f.ts_rt;
        for (auto& m : f.marks)
            hdr->data[m.first] = m.second;
        *hdr_out = *hdr;
        enum DeviceStatusCode rc = storage_append(
          s.dev, hdr,
          (const struct VideoFrame*)(region + hdr->bytes_of_frame));
        for (auto& m : f.marks)
            hdr->data[m.first] = 0;
        frames->push_back(f);
        return rc;
    }

    // A write failure as the device sees it: a pwrite returned -1, or the
    // write-all loop gave up after three zero-length writes (three
    // consecutive zero returns always fall into one loop, because the loop
    // retries immediately).
    static bool pwrite_failed_since(uint64_t from_event)
    {
        auto& ev = simfs::events();
        int zeros = 0;
        for (size_t i = (size_t)from_event; i < ev.size(); ++i) {
            if (ev[i].call != "pwrite")
                continue;
            if (ev[i].result < 0)
                return true;
            if (ev[i].result == 0 && ev[i].n > 0) {
                if (++zeros >= 3)
                    return true;
            } else
                zeros = 0;
        }
        return false;
    }

    static bool close_failed_since(uint64_t from_event)
    {
        auto& ev = simfs::events();
        for (size_t i = (size_t)from_event; i < ev.size(); ++i)
            if (ev[i].call == "close" && ev[i].result < 0)
                return true;
        return false;
    }

    // An append has reported a write failure and the device has left the
    // running state.  Frames whose append was acknowledged earlier in this
    // acquisition are still claimed by the property; the frames of the failed
    // packet may or may not be there.  raw: the file begins with the
    // acknowledged bytes.  tiff: when the fault was a passing one (so that the
    // device's closing write can succeed), the file is a valid BigTIFF holding
    // the acknowledged frames, possibly followed by leading frames of the
    // failed packet, and nothing else.
    static void judge_after_failed_append(Slot& s,
                                          const std::vector<FrameM>& failed,
                                          uint64_t ev0, bool transient)
    {
        const char* own = s.kind == "raw" ? "C14.acknowledged_bytes_damaged"
                                          : "C15.acknowledged_frames_lost";
        if (s.kind == "trash" || !oracle_gates(own) || s.cycle_frames.empty())
            return;
        storage_stop(s.dev); // what the sink does next
        if (s.kind == "raw") {
            const std::vector<uint8_t>* f = simfs::contents(s.path);
            size_t d = 0;
            if (f)
                while (d < f->size() && d < s.cycle_bytes.size() &&
                       (*f)[d] == s.cycle_bytes[d])
                    ++d;
            probe("reach.acknowledged_prefix_judged");
            if (!f || d < s.cycle_bytes.size())
                oracle_fail(own,
                            "raw: an append failed after %zu bytes had been "
                            "appended and acknowledged in this acquisition; "
                            "%s no longer begins with them (first difference "
                            "at byte %zu, file size %zu)",
                            s.cycle_bytes.size(), s.path.c_str(), d,
                            f ? f->size() : (size_t)0);
            return;
        }
        // a fault that lasts defeats the closing write as well
        (void)ev0;
        if (!transient)
            return;
        std::vector<FrameM> frames = s.cycle_frames;
        frames.insert(frames.end(), failed.begin(), failed.end());
        probe("reach.acknowledged_prefix_judged");
        check_tiff(s, s.kind == "tiff" ? s.path : s.path + "/data.tif",
                   s.kind == "tiff", frames, s.cycle_frames.size());
    }

    static bool create_failed_since(uint64_t from_event)
    {
        auto& ev = simfs::events();
        for (size_t i = (size_t)from_event; i < ev.size(); ++i)
            if ((ev[i].call == "open" || ev[i].call == "flock") &&
                ev[i].result < 0)
                return true;
        return false;
    }

    // Runs the history once.  `fault` (optional) is injected.  Returns call
    // counts so that a sweep can enumerate ordinals.
    Counts run_history(const Plan& plan, const FaultSpec& fault)
    {
        simfs::reset(plan.seed);
        simdl::reset();
        Ctx* c = new Ctx();
        c->faults = fault.on;
        c->transient = fault.on && (fault.kind == "eintr" ||
                                    fault.kind == "eagain" ||
                                    fault.kind == "eio1" ||
                                    fault.kind == "zero3");
        if (!fault.on) {
            simfs::set_random_short_writes(plan.getd("short_p", 0));
            int64_t ze = plan.geti("zero_every", 0);
            if (ze > 0)
                for (uint64_t k = (uint64_t)ze; k < 4000; k += (uint64_t)ze + 1)
                    simfs::add_fault(simfs::Fault{ "pwrite", k, simfs::F_ZERO, 0 });
        }
        simfs::set_context(0);
        if (device_manager_init(&c->dm, quiet_reporter) != Device_Ok)
            oracle_fail("C16.harness", "device manager init failed");
        apply_fault(fault);
        std::string scratch;

        for (auto& line : plan.ops) {
            Op op = parse_op(line);
            int si = (int)(op.i("slot") % 2);
            Slot& s = c->slot[si];
            simfs::set_context(si + 1);
            uint64_t ev0 = simfs::events().size();
            hash_u64(mix64(0x51, (uint64_t)std::hash<std::string>()(line)));
            if (op.name == "open") {
                if (s.dev)
                    continue;
                s = Slot();
                s.kind = op.s("kind", "raw");
                const char* nm = s.kind == "tiffjson" ? "tiff-json"
                                                      : s.kind.c_str();
                struct DeviceIdentifier id;
                if (device_manager_select(&c->dm, DeviceKind_Storage, nm,
                                          strlen(nm), &id) != Device_Ok)
                    oracle_fail("C16.harness", "cannot select %s", nm);
                s.dev = storage_open(&c->dm, &id);
                if (!s.dev)
                    oracle_fail("C16.open_failed", "storage_open(%s) failed",
                                nm);
                probe("n.opens");
            } else if (op.name == "set") {
                if (!s.dev || (s.started && !op.i("force", 0)))
                    continue;
                std::string name = op.s("name", "f");
                if (op.has("nameh")) {
                    name = hex_dec(op.s("nameh"));
                    probe("reach.unusual_file_name");
                }
                std::string spelling = op.s("uri", "rel");
                std::string base, path;
                if (s.kind == "tiffjson") {
                    // std::filesystem works on the real scratch directory
                    if (scratch.empty())
                        scratch = simfs::scratch_dir();
                    path = scratch + "/" + name;
                    if (spelling == "nodir")
                        path = scratch + "/no-such-directory/" + name;
                    base = path;
                    if (spelling == "filerel" || spelling == "fileabs")
                        base = "file://" + path;
                } else {
                    const char* ext = s.kind == "raw" ? ".raw" : ".tif";
                    bool abs = spelling == "abs" || spelling == "fileabs";
                    std::string rel = name + ext;
                    path = abs ? "/sim/out/" + rel : "/sim/cwd/" + rel;
                    base = abs ? path : rel;
                    if (spelling == "filerel" || spelling == "fileabs")
                        base = "file://" + base;
                    if (spelling == "nodir") {
                        // a target the device cannot create: the set is
                        // expected to be refused
                        path = "/sim/no-such-directory/" + rel;
                        base = path;
                    }
                }
                const bool nodir = spelling == "nodir";
                const std::string old_path = s.path, old_meta = s.meta;
                s.can_restart = false;
                s.meta = user_meta(op.s("meta", "none"));
                struct StorageProperties props;
                memset(&props, 0, sizeof(props));
                struct PixelScale px = { (double)op.i("px"), (double)op.i("py") };
                std::string m = s.meta;
                bool meta_empty_str = op.s("meta") == "empty";
                storage_properties_init(
                  &props, 0, base.c_str(), base.size() + 1,
                  m.empty() ? (meta_empty_str ? "" : nullptr) : m.c_str(),
                  m.empty() ? (meta_empty_str ? 1 : 0) : m.size() + 1, px, 0);
                const bool while_running = s.started;
                enum DeviceStatusCode rc = storage_set(s.dev, &props);
                storage_properties_destroy(&props);
                s.configured = rc == Device_Ok;
                s.write_failed = false;
                if (while_running) {
                    // the HAL lets a running device be configured again: the
                    // device is then Armed for the new target and whatever it
                    // was writing is over (its content is not judged, its
                    // descriptors are)
                    probe("reach.set_while_running");
                    if (storage_get_state(s.dev) != DeviceState_Running) {
                        s.started = false;
                        s.can_restart = false;
                        s.cycles++;
                        // The acquisition that was being written is over, and
                        // every frame appended to it had been acknowledged:
                        // its file is judged like that of a stopped one
                        // (whether the new configuration was accepted or
                        // not).  Fault runs: only when nothing failed so far.
                        const char* own = s.kind == "raw"
                                            ? "C14.file_differs"
                                            : "C15.invalid_bigtiff";
                        bool judge = !s.big && oracle_gates(own) &&
                                     s.kind != "trash" &&
                                     (!c->faults ||
                                      (s.cycle_clean && !s.absorbed &&
                                       !pwrite_failed_since(ev0) &&
                                       !create_failed_since(ev0) &&
                                       !close_failed_since(ev0)));
                        if (judge) {
                            probe("reach.interrupted_file_judged");
                            if (s.kind == "raw") {
                                const std::vector<uint8_t>* f =
                                  simfs::contents(old_path);
                                if (!f || *f != s.cycle_bytes)
                                    oracle_fail(
                                      "C14.file_differs",
                                      "raw: the device was configured again "
                                      "while running; %s, which it was "
                                      "writing, holds %zu bytes but the %zu "
                                      "bytes appended so far were expected",
                                      old_path.c_str(),
                                      f ? f->size() : (size_t)0,
                                      s.cycle_bytes.size());
                            } else if (!s.cycle_frames.empty()) {
                                // (judged against the metadata it was
                                // started with)
                                const std::string new_meta = s.meta;
                                s.meta = old_meta;
                                check_tiff(s,
                                           s.kind == "tiff"
                                             ? old_path
                                             : old_path + "/data.tif",
                                           s.kind == "tiff", s.cycle_frames,
                                           s.cycle_frames.size());
                                s.meta = new_meta;
                            }
                        }
                    }
                }
                if (nodir) {
                    probe("reach.set_with_uncreatable_target");
                    s.configured = false; // whatever the answer: not started
                }
                // tiff-json insists on a JSON metadata string (it rejects the
                // empty string that stands for "none"): that is input
                // validation, not judged here
                bool must_accept =
                  !nodir && (s.kind != "tiffjson" || !s.meta.empty());
                if (!s.configured && !c->faults && must_accept)
                    oracle_fail(s.kind == "raw" ? "C14.set_rejected"
                                                : "C15.set_rejected",
                                "%s: storage_set rejected a valid "
                                "configuration (uri '%s', metadata '%s')",
                                s.kind.c_str(), base.c_str(), s.meta.c_str());
                s.path = path;
            } else if (op.name == "start" || op.name == "restart" ||
                       op.name == "startafterfail") {
                if (op.name == "startafterfail") {
                    // a write failed and the device fell back to Armed: the
                    // user starts it again as it is, without configuring it
                    // again (legal: Armed is what start requires)
                    if (!s.dev || s.started || !s.write_failed ||
                        storage_get_state(s.dev) != DeviceState_Armed)
                        continue;
                    s.configured = true;
                    probe("reach.start_after_failed_append");
                }
                if (op.name == "restart") {
                    // same configuration again; the previous output was moved
                    // away (files are created without truncation, so acquiring
                    // onto an existing file is outside the property)
                    if (!s.dev || s.started || !s.can_restart)
                        continue;
                    simfs::remove(s.path);
                    simfs::remove(s.path + "/data.tif");
                    simfs::remove(s.path + "/metadata.json");
                    s.configured = true;
                    probe("reach.restart_without_set");
                }
                if (!s.dev || !s.configured || s.started)
                    continue;
                enum DeviceStatusCode rc = storage_start(s.dev);
                bool cf = create_failed_since(ev0);
                enum DeviceState st = storage_get_state(s.dev);
                if (cf && (rc == Device_Ok || st == DeviceState_Running) &&
                    s.kind != "tiffjson")
                    oracle_fail("C16.create_failure_not_reported",
                                "%s: creating the file failed but "
                                "storage_start returned %d with state %d",
                                s.kind.c_str(), (int)rc, (int)st);
                if (pwrite_failed_since(ev0) && st == DeviceState_Running)
                    probe("reach.header_write_failed_in_start");
                if (rc != Device_Ok) {
                    const char* sid =
                      s.kind == "raw" ? "C14.start_failed" : "C15.start_failed";
                    if (!c->faults && oracle_gates(sid))
                        oracle_fail(sid,
                                    "%s: storage_start failed without any "
                                    "injected fault (path %s)",
                                    s.kind.c_str(), s.path.c_str());
                    s.configured = false; // must be set again
                    continue;
                }
                s.started = true;
                s.write_failed = false;
                // (started again after a failure: same path as before, and
                // acquiring onto an existing file is outside the properties)
                s.cycle_clean = op.name != "startafterfail" &&
                                !pwrite_failed_since(ev0) &&
                                !create_failed_since(ev0);
                s.absorbed = false;
                s.cycle_bytes.clear();
                s.cycle_frames.clear();
                s.cycle_exts.clear();
                s.cycle_len = 0;
                s.big = plan.gets("mode") == "huge";
                s.next_frame_id = (uint64_t)op.i("fid", 0);
                if (s.next_frame_id)
                    probe("reach.first_frame_id_nonzero");
                probe("n.starts");
            } else if (op.name == "startagain") {
                if (!s.dev || !s.started)
                    continue;
                enum DeviceStatusCode rc = storage_start(s.dev);
                enum DeviceState st = storage_get_state(s.dev);
                probe("reach.start_while_running");
                const char* oid = s.kind == "raw" ? "C14.second_start_disturbs"
                                                  : "C15.second_start_disturbs";
                // (under C16 the run goes on: what matters there is what
                // happens to the descriptors afterwards)
                if (!c->faults && oracle_gates(oid) &&
                    (rc == Device_Ok || st != DeviceState_Running))
                    oracle_fail(oid,
                                "%s: storage_start on a running device "
                                "returned %d and left the device in state %d "
                                "(it must be refused and leave it Running)",
                                s.kind.c_str(), (int)rc, (int)st);
            } else if (op.name == "append" || op.name == "bigappend") {
                if (!s.dev || !s.started)
                    continue;
                const bool bigop = op.name == "bigappend";
                if (bigop && !s.big)
                    continue;
                std::vector<uint8_t> pk;
                std::vector<FrameM> fr;
                enum DeviceStatusCode rc;
                struct VideoFrame bighdr;
                if (bigop) {
                    rc = big_append(s, op, &fr, &bighdr);
                } else {
                    build_packet(s, op, &pk, &fr);
                    // 8-byte aligned copy, exact size (ASan guards the end)
                    uint8_t* buf =
                      (uint8_t*)aligned_alloc(8, (pk.size() + 7) & ~7ull);
                    memcpy(buf, pk.data(), pk.size());
                    rc = storage_append(
                      s.dev, (const struct VideoFrame*)buf,
                      (const struct VideoFrame*)(buf + pk.size()));
                    free(buf);
                }
                bool wf = pwrite_failed_since(ev0);
                enum DeviceState st = storage_get_state(s.dev);
                if (wf && st == DeviceState_Running && rc == Device_Ok &&
                    !bigop) {
                    // Nobody was told.  That is fine if the device made up
                    // for it (a retry that got everything into the file), and
                    // only then: the file is judged as for a fault-free
                    // acquisition when it is stopped.
                    probe("reach.failed_write_not_reported");
                    s.absorbed = true;
                    wf = false;
                }
                if (wf) {
                    probe("reach.write_failed_in_append");
                    if (st == DeviceState_Running)
                        oracle_fail("C16.write_failure_not_reported",
                                    "%s: a write failed during append (pwrite "
                                    "error or three zero-length writes) but "
                                    "the device still reports Running when "
                                    "the append returns (append rc=%d)",
                                    s.kind.c_str(), (int)rc);
                    s.started = false;
                    s.configured = false;
                    s.write_failed = true;
                    s.cycle_clean = false;
                    if (!bigop)
                        judge_after_failed_append(s, fr, ev0, c->transient);
                    continue;
                }
                if (rc != Device_Ok) {
                    const char* aid = s.kind == "raw" ? "C14.append_failed"
                                                      : "C15.append_failed";
                    if (!c->faults && oracle_gates(aid))
                        oracle_fail(aid,
                                    "%s: storage_append failed without any "
                                    "injected fault",
                                    s.kind.c_str());
                    s.started = false;
                    s.configured = false;
                    s.cycle_clean = false;
                    continue;
                }
                if (!s.big) {
                    s.cycle_bytes.insert(s.cycle_bytes.end(), pk.begin(),
                                         pk.end());
                } else if (!bigop) {
                    s.cycle_exts.push_back(Ext{ s.cycle_len, pk });
                    s.cycle_len += pk.size();
                } else {
                    const FrameM& f = fr[0];
                    std::vector<uint8_t> hb(sizeof(bighdr));
                    memcpy(hb.data(), &bighdr, sizeof(bighdr));
                    s.cycle_exts.push_back(Ext{ s.cycle_len, hb });
                    for (auto& m : f.marks)
                        s.cycle_exts.push_back(
                          Ext{ s.cycle_len + sizeof(bighdr) + m.first,
                               { m.second } });
                    s.cycle_len += bighdr.bytes_of_frame;
                    probe("reach.huge_frame_appended");
                }
                if (s.big && s.cycle_len > (1ull << 32))
                    probe("reach.append_beyond_4GiB");
                for (auto& f : fr)
                    s.cycle_frames.push_back(f);
                probe("n.frames_appended", fr.size());
            } else if (op.name == "stop") {
                if (s.dev && !s.started && s.write_failed) {
                    // what the sink does when an append fails
                    storage_stop(s.dev);
                    continue;
                }
                if (!s.dev || !s.started)
                    continue;
                storage_stop(s.dev);
                s.started = false;
                s.configured = false; // a fresh path is set for every cycle
                s.can_restart = !c->faults;
                s.cycles++;
                // ---- content oracles: fault-free runs, and cycles of fault
                // runs in which every call reported success and no injected
                // failure landed in set, start or this stop (a failure inside
                // an append that nobody reported must have been made up for)
                const char* ov = nullptr;
                if (c->faults) {
                    if (!s.cycle_clean || s.big || pwrite_failed_since(ev0) ||
                        close_failed_since(ev0))
                        continue;
                    const char* own = s.kind == "raw" ? "C14.file_differs"
                                                      : "C15.invalid_bigtiff";
                    if (!oracle_gates(own)) {
                        // under C16 only an unreported failure is its business
                        if (!s.absorbed ||
                            !oracle_gates("C16.write_failure_not_reported"))
                            continue;
                        ov = "C16.write_failure_not_reported";
                    }
                    probe("reach.cycle_judged_in_fault_run");
                }
                if (s.kind == "raw" && s.big) {
                    uint64_t sz = simfs::size(s.path);
                    if (sz == UINT64_MAX)
                        oracle_fail("C14.file_missing",
                                    "raw: nothing was written at %s",
                                    s.path.c_str());
                    uint64_t d = compare_sparse(
                      s.path, 0, std::max(sz, s.cycle_len), s.cycle_exts);
                    if (sz != s.cycle_len || d != UINT64_MAX)
                        oracle_fail(
                          "C14.file_differs",
                          "raw: %s holds %llu bytes but the %llu bytes "
                          "appended in this acquisition were expected; first "
                          "difference at byte %llu",
                          s.path.c_str(), (unsigned long long)sz,
                          (unsigned long long)s.cycle_len,
                          (unsigned long long)(d == UINT64_MAX
                                                 ? std::min(sz, s.cycle_len)
                                                 : d));
                } else if (s.kind == "raw") {
                    const std::vector<uint8_t>* f = simfs::contents(s.path);
                    if (!f)
                        oracle_fail(ov ? ov : "C14.file_missing",
                                    "raw: nothing was written at %s",
                                    s.path.c_str());
                    if (*f != s.cycle_bytes) {
                        size_t d = 0;
                        while (d < f->size() && d < s.cycle_bytes.size() &&
                               (*f)[d] == s.cycle_bytes[d])
                            ++d;
                        oracle_fail(
                          ov ? ov : "C14.file_differs",
                          "raw: %s holds %zu bytes but the %zu bytes appended "
                          "in this acquisition (cycle %d of this device) were "
                          "expected; first difference at byte %zu",
                          s.path.c_str(), f->size(), s.cycle_bytes.size(),
                          s.cycles, d);
                    }
                } else if (s.kind == "tiff") {
                    if (!s.cycle_frames.empty())
                        check_tiff(s, s.path, true, s.cycle_frames,
                                   s.cycle_frames.size(), ov);
                } else if (s.kind == "tiffjson") {
                    if (!s.cycle_frames.empty())
                        check_tiff(s, s.path + "/data.tif", false,
                                   s.cycle_frames, s.cycle_frames.size(), ov);
                    if (!s.meta.empty() && !ov) {
                        const std::vector<uint8_t>* mj =
                          simfs::contents(s.path + "/metadata.json");
                        if (!mj ||
                            std::string(mj->begin(), mj->end()) != s.meta)
                            oracle_fail("C15.metadata_json",
                                        "tiff-json: %s/metadata.json does not "
                                        "hold the user's metadata byte for "
                                        "byte",
                                        s.path.c_str());
                    }
                }
                probe("n.cycles_checked");
            } else if (op.name == "close") {
                if (!s.dev)
                    continue;
                if (s.started)
                    probe("reach.close_while_running");
                storage_close(s.dev);
                s.dev = nullptr;
                s.started = false;
                probe("n.closes");
                // none of this device's descriptors may stay open
                for (auto& fd : simfs::open_fds())
                    if (fd.second == si + 1)
                        oracle_fail("C16.descriptor_leaked",
                                    "%s: descriptor %d (%s) is still open "
                                    "after the device was closed",
                                    s.kind.c_str(), fd.first,
                                    simfs::fd_path(fd.first).c_str());
            }
        }
        for (int si = 0; si < 2; ++si) {
            Slot& s = c->slot[si];
            if (s.dev) {
                simfs::set_context(si + 1);
                storage_close(s.dev);
                s.dev = nullptr;
                for (auto& fd : simfs::open_fds())
                    if (fd.second == si + 1)
                        oracle_fail("C16.descriptor_leaked",
                                    "%s: descriptor %d (%s) is still open "
                                    "after the device was closed",
                                    s.kind.c_str(), fd.first,
                                    simfs::fd_path(fd.first).c_str());
            }
        }
        simfs::set_context(0);
        device_manager_destroy(&c->dm);
        Counts n;
        n.pwrite = simfs::calls("pwrite");
        n.open = simfs::calls("open");
        n.flock = simfs::calls("flock");
        n.close = simfs::calls("close");
        hash_u64(n.pwrite * 1000003 + n.open * 101 + n.close);
        if (!scratch.empty()) {
            std::string cmd = "rm -rf '" + scratch + "'";
            if (system(cmd.c_str()) != 0) {
            }
        }
        delete c;
        return n;
    }

    void execute(const Plan& plan) override
    {
        begin_run(sched_of(plan));
        if (plan.gets("mode", "cycles") != "sweep") {
            FaultSpec none;
            // explicit single fault in a replayed/shrunk plan
            if (plan.cfg.count("fault.call")) {
                none.on = true;
                none.call = plan.gets("fault.call");
                none.kind = plan.gets("fault.kind");
                none.ord = (uint64_t)plan.geti("fault.ord");
            }
            run_history(plan, none);
            return;
        }
        // ---- fault enumeration: twin run, then every ordinal
        FaultSpec none;
        Counts n = run_history(plan, none);
        std::string f = plan.gets("fault", "pwrite:eio");
        size_t colon = f.find(':');
        FaultSpec fs;
        fs.on = true;
        fs.call = f.substr(0, colon);
        fs.kind = f.substr(colon + 1);
        uint64_t total = fs.call == "pwrite"
                           ? n.pwrite
                           : fs.call == "open"
                               ? n.open
                               : fs.call == "flock" ? n.flock : n.close;
        probe("n.twin_runs");
        int64_t only = plan.geti("only_ord", -1);
        for (uint64_t ord = 0; ord < total; ++ord) {
            if (only >= 0 && (uint64_t)only != ord)
                continue;
            fs.ord = ord;
            hist("sweep %s ordinal %llu of %llu", f.c_str(),
                 (unsigned long long)ord, (unsigned long long)total);
            run_history(plan, fs);
            probe("n.fault_subruns");
            probe(("fault.swept_" + fs.call + "_" + fs.kind).c_str());
        }
    }
};

static StorHarness g_stor;

struct Reg
{
    Reg()
    {
        register_harness(&g_stor);
        std::vector<std::string> real = {
            "acquire-driver-common/src/storage/{raw.c,tiff.cpp,"
            "side-by-side-tiff.cpp,trash.c,basic.storage.c} and "
            "basics.driver.c",
            "acquire-core-libs/src/acquire-device-hal/device/hal/{storage,"
            "driver,loader}.c and device.manager.cpp",
            "acquire-core-libs/src/acquire-core-platform/linux/platform.c "
            "(file_create, file_write write-all loop, file_close, "
            "file_is_writable)",
            "acquire-core-libs/src/acquire-device-properties/device/props/"
            "storage.c"
        };
        std::vector<std::string> stub = {
            "open/close/pwrite/flock/access/unlink: in-memory file layer "
            "(sim/files.cpp) with short writes, zero-length writes, "
            "EINTR/EAGAIN, persistent EIO/ENOSPC, create/flock/close failures",
            "directories used by std::filesystem in side-by-side-tiff.cpp: a "
            "real per-run scratch directory",
            "frames: generated packets (random shapes, ids, timestamps, "
            "pixels); files beyond 64 MiB are held sparsely by the file layer"
        };
        CheckSpec c;
        c.harness = "stor";
        c.real_components = real;
        c.stub_components = stub;
        c.property = "C14";
        c.level = "exploration";
        c.design_ref = "DESIGN.md section 4, C14";
        c.technique =
          "seeded set/start/append/stop histories on the real raw writer over "
          "a simulated file layer that returns short and zero-length writes; "
          "file bytes compared with the concatenation of appended packets";
        c.rule =
          "a case is one generated history (1-2 raw devices, 1-4 "
          "acquisitions each to a fresh path, URI spelling, packet grouping, "
          "frame shapes, short-write probability, zero-write pattern); "
          "non-trivial = at least one acquisition's file was compared and at "
          "least one frame appended; distinct = distinct run fingerprint. "
          "Profile huge: one acquisition of 4-5.5 GiB (huge sparse frames "
          "mixed with small packets) so that the running offset leaves the "
          "32-bit range while frames are still appended";
        c.profiles = { { "huge", 16, 160, false },
                       { "raw", 30000, 600000, false },
                       { "transient", 1000, 20000, true } };
        c.assumptions = {
            "every acquisition of a device writes to a fresh path (files are "
            "created without truncation; same-path reuse is outside the "
            "property)",
            "profile transient injects a failing write at every position of a "
            "history (EINTR, EAGAIN, EIO once or for good, ENOSPC, three "
            "zero-length writes): an acquisition in which every call reported "
            "success is judged like a fault-free one; after an append that "
            "reported the failure only the bytes acknowledged before it are "
            "claimed (the file must still begin with them)"
        };
        c.reach_probes = { "fault.pwrite_short", "fault.pwrite_zero",
                           "n.cycles_checked", "reach.append_beyond_4GiB",
                           "reach.acknowledged_prefix_judged",
                           "reach.cycle_judged_in_fault_run" };
        register_check(c);

        c.property = "C15";
        c.design_ref = "DESIGN.md section 4, C15";
        c.technique =
          "seeded histories on the real tiff and tiff-json writers over the "
          "simulated file layer; the produced bytes are parsed by an "
          "independent BigTIFF reader and JSON parser written from the "
          "specifications";
        c.rule =
          "a case is one generated history (tiff or tiff-json device, 1-4 "
          "acquisitions, shapes, sample types, packet grouping, metadata, "
          "pixel scale, URI spelling, short writes); non-trivial = at least "
          "one file was parsed and checked; distinct = distinct run "
          "fingerprint. Profile huge: one file of 4-5.5 GiB (huge sparse "
          "frames mixed with small packets): directories, strips and "
          "descriptions beyond the 4 GiB boundary";
        c.profiles = { { "huge", 16, 160, false },
                       { "tiff", 25000, 500000, false },
                       { "transient", 600, 12000, true } };
        c.assumptions = {
            "profile transient injects a failing write at every position of a "
            "history: an acquisition in which every call reported success is "
            "judged like a fault-free one; after an append that reported the "
            "failure, and provided the fault was a passing one (a lasting one "
            "defeats the closing write too), the file must be a valid BigTIFF "
            "holding the frames acknowledged "
            "before it (frames of the failed packet may follow, nothing else)",
            "only the stated clauses are judged (header, chain length and "
            "termination, offsets inside the file, no overlap, "
            "width/height/bits/sample format, strip bytes, description JSON "
            "with ids/timestamps, metadata placement); tag order, optional "
            "tags and resolution values are not"
        };
        c.reach_probes = { "n.cycles_checked", "fault.pwrite_short",
                           "reach.append_beyond_4GiB",
                           "reach.acknowledged_prefix_judged",
                           "reach.cycle_judged_in_fault_run" };
        register_check(c);

        c.property = "C16";
        c.level = "fault_enumeration";
        c.design_ref = "DESIGN.md section 4, C16";
        c.technique =
          "fault enumeration on the simulated file layer: for every generated "
          "life-cycle history a fault-free twin run counts the "
          "create/write/lock/close calls, then the history is re-executed "
          "once per call ordinal with the fault at that ordinal; descriptor "
          "ownership is tracked by the file layer";
        c.rule =
          "a case is one generated life-cycle history (storage kind x shape: "
          "open-close, open-set-close, cycles, operations after a failure, "
          "close while running, a second start or a set while running, a "
          "second device taking over released descriptor numbers) with one "
          "fault family; every ordinal of that "
          "family's call is swept (evaluations counts plans; "
          "n.fault_subruns counts executions); non-trivial = at least one "
          "faulty sub-run executed; distinct = distinct run fingerprint";
        c.profiles = { { "sweep", 3000, 60000, true } };
        c.assumptions = {
            "a 'write failure' is a pwrite that returns -1 or three "
            "consecutive zero-length writes inside one write-all loop",
            "descriptors 0-2 belong to the environment"
        };
        c.reach_probes = { "n.fault_subruns", "reach.write_failed_in_append",
                           "reach.close_while_running" };
        register_check(c);
    }
} g_reg;

} // namespace
