// Harness `dm`: real device.manager.cpp, loader.c, driver.c, platform.c
// (lib_*) and the real common driver, plus mock drivers with generated device
// tables behind the dl seam.  Serves C12.  DESIGN.md section 4, C12.
#include "../sim/files.h"
#include "../sim/harness.h"
#include "../sim/seams.h"
#include "../sim/super.h"
#include "../world/mockdrv.h"

#include <ctype.h>
#include <stdio.h>
#include <stdlib.h>
#include <string.h>

extern "C"
{
#include "device/hal/camera.h"
#include "device/hal/device.manager.h"
#include "device/hal/storage.h"
}

using namespace sim;

namespace {

static void
quiet(int, const char*, int, const char*, const char*)
{
}

// ------------------------------------------------------------------------
// Independent matcher for the constructive pattern grammar:
//   pattern := seq ('|' seq)*
//   seq     := (atom quant?)*
//   atom    := literal | '\' meta | '.' | '[' chars ']'
//   quant   := '*' | '+' | '?'
// whole-string, ASCII case-insensitive.  Plain backtracking.
struct Atom
{
    enum
    {
        Lit,
        Any,
        Set
    } kind;
    char c;
    std::string set;
    char quant; // 0, '*', '+', '?'
};

static bool
parse_seq(const std::string& p, std::vector<Atom>* out)
{
    size_t i = 0;
    while (i < p.size()) {
        Atom a;
        a.quant = 0;
        a.c = 0;
        char ch = p[i];
        if (ch == '\\' && i + 1 < p.size()) {
            a.kind = Atom::Lit;
            a.c = p[i + 1];
            i += 2;
        } else if (ch == '.') {
            a.kind = Atom::Any;
            ++i;
        } else if (ch == '[') {
            size_t e = p.find(']', i + 1);
            if (e == std::string::npos)
                return false;
            a.kind = Atom::Set;
            a.set = p.substr(i + 1, e - i - 1);
            i = e + 1;
        } else {
            a.kind = Atom::Lit;
            a.c = ch;
            ++i;
        }
        if (i < p.size() && (p[i] == '*' || p[i] == '+' || p[i] == '?'))
            a.quant = p[i++];
        out->push_back(a);
    }
    return true;
}

static bool
atom_matches(const Atom& a, char c)
{
    switch (a.kind) {
        case Atom::Any:
            return c != '\n' && c != '\r';
        case Atom::Lit:
            return tolower((unsigned char)a.c) == tolower((unsigned char)c);
        case Atom::Set:
            for (char s : a.set)
                if (tolower((unsigned char)s) == tolower((unsigned char)c))
                    return true;
            return false;
    }
    return false;
}

static bool
match_here(const std::vector<Atom>& as, size_t ai, const std::string& s,
           size_t si)
{
    if (ai == as.size())
        return si == s.size();
    const Atom& a = as[ai];
    if (a.quant == 0)
        return si < s.size() && atom_matches(a, s[si]) &&
               match_here(as, ai + 1, s, si + 1);
    if (a.quant == '?') {
        if (si < s.size() && atom_matches(a, s[si]) &&
            match_here(as, ai + 1, s, si + 1))
            return true;
        return match_here(as, ai + 1, s, si);
    }
    size_t k = si;
    while (k < s.size() && atom_matches(a, s[k]))
        ++k;
    size_t mn = a.quant == '+' ? si + 1 : si;
    for (size_t e = k + 1; e-- > mn;) {
        if (match_here(as, ai + 1, s, e))
            return true;
        if (e == 0)
            break;
    }
    return false;
}

static bool
model_match(const std::string& pattern, const std::string& name)
{
    // split on unescaped top-level '|' (no groups in the grammar; '|' inside
    // a bracket expression is literal)
    std::vector<std::string> alts(1);
    bool in_set = false;
    for (size_t i = 0; i < pattern.size(); ++i) {
        char c = pattern[i];
        if (c == '\\' && i + 1 < pattern.size()) {
            alts.back() += c;
            alts.back() += pattern[++i];
        } else if (c == '[' && !in_set) {
            in_set = true;
            alts.back() += c;
        } else if (c == ']' && in_set) {
            in_set = false;
            alts.back() += c;
        } else if (c == '|' && !in_set)
            alts.emplace_back();
        else
            alts.back() += c;
    }
    for (auto& a : alts) {
        std::vector<Atom> as;
        if (!parse_seq(a, &as))
            continue;
        if (match_here(as, 0, name, 0))
            return true;
    }
    return false;
}

static std::string
hex_encode(const std::string& s)
{
    static const char* d = "0123456789abcdef";
    std::string o;
    for (unsigned char c : s) {
        o += d[c >> 4];
        o += d[c & 15];
    }
    return o.empty() ? "-" : o;
}

static std::string
hex_decode(const std::string& h)
{
    if (h == "-")
        return "";
    std::string o;
    for (size_t i = 0; i + 1 < h.size(); i += 2)
        o += (char)strtol(h.substr(i, 2).c_str(), 0, 16);
    return o;
}

static const char* LIBS[6] = { "acquire-driver-common", "acquire-driver-hdcam",
                               "acquire-driver-zarr", "acquire-driver-egrabber",
                               "acquire-driver-spinnaker",
                               "acquire-driver-pvcam" };

struct EnumDev
{
    int driver_id;
    int device_id;
    enum DeviceKind kind;
    std::string name;
    bool describe_ok;
};

static bool is_regex_meta(char c)
{
    return strchr("\\^$.|?*+()[]{}", c) != nullptr;
}

static std::string
escape_literal(const std::string& name, Rng& g, bool flip_case)
{
    std::string p;
    for (char c : name) {
        if (is_regex_meta(c)) {
            p += '\\';
            p += c;
        } else {
            char d = c;
            if (flip_case && isalpha((unsigned char)c) && g.chance(0.4))
                d = (char)(islower((unsigned char)c) ? toupper((unsigned char)c)
                                                    : tolower((unsigned char)c));
            p += d;
        }
    }
    return p;
}

static std::string
gen_name(Rng& g)
{
    static const char* words[] = { "Cam",     "camera", "Zyla",  "blackfly",
                                   "store",   "Zarr",   "v3",    "(x64)",
                                   "[beta]",  "a+b",    "c.d",   "tiff",
                                   "raw",     "random", "Trash", "sim*",
                                   "q?",      "{n}",    "pi^2",  "$HOME",
                                   "back\\",  "semi: colon" };
    int n = (int)g.range(1, 4);
    std::string s;
    for (int i = 0; i < n; ++i) {
        if (i)
            s += g.chance(0.7) ? " " : "-";
        s += words[g.below(sizeof(words) / sizeof(words[0]))];
    }
    if (g.chance(0.05)) {
        // long name (up to 255 bytes)
        size_t n = (size_t)g.range(200, 255);
        while (s.size() < n)
            s += (char)('a' + g.below(26));
        s.resize(n);
    }
    return s;
}

struct DmHarness : Harness
{
    const char* name() const override { return "dm"; }
    int batch(const std::string&) const override { return 50; }

    bool nontrivial(const std::string&,
                    const std::map<std::string, uint64_t>& p) const override
    {
        auto g = [&](const char* k) {
            auto it = p.find(k);
            return it == p.end() ? (uint64_t)0 : it->second;
        };
        return g("n.selects_judged") > 0 && g("n.opens") > 0;
    }

    Plan generate(uint64_t seed, const std::string& property,
                  const std::string& profile) override
    {
        Plan p;
        p.harness = "dm";
        p.property = property;
        p.profile = profile;
        p.seed = seed;
        p.seti("sched.strategy", ST_DEFAULT);
        Rng g(mix64(seed, 0xd311));
        // which libraries exist and how they misbehave
        std::vector<std::string> names_pool;
        char b[600];
        for (int l = 0; l < 6; ++l) {
            int k = (int)g.below(10);
            const char* mode = "absent";
            if (l == 0)
                mode = k < 8 ? "real" : "absent";
            else if (k < 4)
                mode = "mock";
            else if (k == 4)
                mode = "noentry";
            else if (k == 5)
                mode = "initnull";
            int ndev = (int)g.range(0, 5);
            std::string line = std::string("lib i=") + std::to_string(l) +
                               " mode=" + mode;
            if (!strcmp(mode, "mock")) {
                line += " devs=";
                for (int d = 0; d < ndev; ++d) {
                    std::string nm = names_pool.size() && g.chance(0.2)
                                       ? g.pick(names_pool)
                                       : gen_name(g);
                    names_pool.push_back(nm);
                    line += (d ? "," : "") +
                            std::string(g.chance(0.5) ? "c" : "s") +
                            hex_encode(nm);
                }
                if (ndev == 0)
                    line += "-";
                if (ndev && g.chance(0.15)) {
                    snprintf(b, sizeof(b), " baddescribe=%d",
                             (int)g.below((uint64_t)ndev));
                    line += b;
                }
            }
            p.ops.push_back(line);
        }
        names_pool.push_back("simulated: uniform random");
        names_pool.push_back("simulated: radial sin");
        names_pool.push_back("simulated: empty");
        names_pool.push_back("raw");
        names_pool.push_back("tiff");
        names_pool.push_back("trash");
        names_pool.push_back("tiff-json");
        p.ops.push_back("init");
        int nops = (int)g.range(4, 30);
        for (int i = 0; i < nops; ++i) {
            // the answer depends on kind, pattern and enumeration only: the
            // same selection is asked again later (directly, or after others)
            if (g.chance(0.15)) {
                std::vector<size_t> sels;
                for (size_t j = 0; j < p.ops.size(); ++j)
                    if (p.ops[j].compare(0, 4, "sel ") == 0)
                        sels.push_back(j);
                if (!sels.empty()) {
                    size_t j = g.chance(0.5) ? sels.back()
                                             : sels[g.below(sels.size())];
                    p.ops.push_back(p.ops[j]);
                    continue;
                }
            }
            int k = (int)g.below(12);
            int kind = g.chance(0.5) ? DeviceKind_Camera : DeviceKind_Storage;
            if (g.chance(0.08)) {
                static const int odd[] = { DeviceKind_None, DeviceKind_StageAxis,
                                           DeviceKind_Signals, DeviceKind_Count,
                                           DeviceKind_Unknown, 77 };
                kind = odd[g.below(6)];
            }
            if (k < 6) {
                // constructive pattern with a known verdict
                std::string nm = g.pick(names_pool);
                std::string pat;
                int form = (int)g.below(8);
                if (form == 0)
                    pat = "";
                else if (form == 1)
                    pat = escape_literal(nm, g, true);
                else if (form == 2) {
                    size_t cut = (size_t)g.below(nm.size() + 1);
                    pat = escape_literal(nm.substr(0, cut), g, true) + ".*";
                } else if (form == 3) {
                    size_t cut = (size_t)g.below(nm.size() + 1);
                    pat = ".*" + escape_literal(nm.substr(cut), g, true);
                } else if (form == 4) {
                    pat = escape_literal(g.pick(names_pool), g, false) + "|" +
                          escape_literal(nm, g, true);
                } else if (form == 5) {
                    // a substring only: must NOT match the whole name unless
                    // it is the whole name
                    size_t a = (size_t)g.below(nm.size() + 1);
                    size_t c = (size_t)g.below(nm.size() - a + 1);
                    pat = escape_literal(nm.substr(a, c), g, true);
                } else if (form == 6) {
                    // character class for the first letter, optional tail
                    if (!nm.empty() && isalpha((unsigned char)nm[0])) {
                        pat = std::string("[") + (char)tolower(nm[0]) + "xq]" +
                              escape_literal(nm.substr(1), g, true);
                    } else
                        pat = escape_literal(nm, g, true);
                    if (g.chance(0.5))
                        pat += "z?";
                } else {
                    pat = escape_literal(nm, g, true);
                    // plus / star after the last plain character
                    if (!pat.empty() && isalnum((unsigned char)pat.back()))
                        pat += g.chance(0.5) ? "+" : "*";
                }
                int pad = g.chance(0.15) ? (int)g.range(1, 3) : 0;
                if (pat.size() > 254)
                    pat = ""; // (cutting could split an escape sequence)
                if (!pat.empty() && pad == 0 && form != 4 && g.chance(0.06)) {
                    // a NUL byte in front of a pattern that ends in a non-NUL
                    // byte: not padding, so nothing is stripped, and no name
                    // (names are never empty) matches it whichever way the
                    // byte is read - as a literal or as the end of the pattern
                    // (alternations are left out: there the two readings
                    // differ)
                    pat = std::string(1, '\0') + pat;
                }
                p.ops.push_back("sel kind=" + std::to_string(kind) +
                                " class=a pad=" + std::to_string(pad) +
                                " pat=" + hex_encode(pat));
            } else if (k < 8) {
                // arbitrary bytes up to 255
                std::string pat;
                int n = (int)g.range(1, g.chance(0.1) ? 255 : 24);
                for (int j = 0; j < n; ++j) {
                    int c = (int)g.below(256);
                    if (g.chance(0.6)) {
                        static const char* meta = "\\[](){}*+?|^$.-a,0 9";
                        c = meta[g.below(strlen(meta))];
                    }
                    if (g.chance(0.08)) {
                        // text that means something to other interpreters the
                        // pattern may pass through (printf formats, paths)
                        static const char* toks[] = { "%s", "%n", "%d", "%x",
                                                      "%%", "%999999s", "%p",
                                                      "%hhn", "../", "\\0" };
                        pat += toks[g.below(10)];
                        continue;
                    }
                    pat += (char)c;
                }
                if (pat.size() > 255)
                    pat.resize(255);
                p.ops.push_back("sel kind=" + std::to_string(kind) +
                                " class=b pad=0 pat=" + hex_encode(pat));
            } else if (k == 8) {
                snprintf(b, sizeof(b), "first kind=%d", kind);
                p.ops.push_back(b);
            } else if (k == 9) {
                snprintf(b, sizeof(b), "default kind=%d", kind);
                p.ops.push_back(b);
            } else if (k == 10 && g.chance(0.3)) {
                // the bundled driver's own table, asked directly through the
                // driver interface (the manager never asks beyond the count)
                snprintf(b, sizeof(b), "drvprobe i=%d", (int)g.range(0, 12));
                p.ops.push_back(b);
            } else if (k == 10) {
                snprintf(b, sizeof(b), "get i=%d", (int)g.range(-1, 40));
                p.ops.push_back(b);
            } else {
                snprintf(b, sizeof(b), "open i=%d corrupt=%d", (int)g.below(30),
                         g.chance(0.4) ? (int)g.range(1, 4) : 0);
                p.ops.push_back(b);
            }
        }
        p.ops.push_back("openall");
        return p;
    }

    void execute(const Plan& plan) override
    {
        begin_run(sched_of(plan));
        simfs::reset(plan.seed);
        simdl::reset();
        mock::reset();
        int baddescribe[4] = { -1, -1, -1, -1 };
        mock::hooks().describe = [&](int drv, uint64_t dev) -> int {
            return baddescribe[drv] == (int)dev ? Device_Err : Device_Ok;
        };
        std::vector<EnumDev> model; // expected enumeration
        std::vector<EnumDev> per_lib[6];
        bool lib_loaded[6] = { false, false, false, false, false, false };
        int mock_slot = 0;
        struct DeviceManager dm = { 0 };
        bool inited = false;
        std::map<std::string, std::string> asked; // selection -> answer

        auto first_match = [&](int kind, const std::string& pat,
                               bool* any) -> const EnumDev* {
            *any = false;
            for (auto& e : model) {
                if ((int)e.kind != kind)
                    continue;
                if (pat.empty() || model_match(pat, e.name)) {
                    *any = true;
                    return &e;
                }
            }
            return nullptr;
        };
        auto same = [&](const struct DeviceIdentifier& id, const EnumDev& e) {
            return id.driver_id == e.driver_id && id.device_id == e.device_id &&
                   id.kind == e.kind && e.name == id.name;
        };
        auto is_enumerated = [&](const struct DeviceIdentifier& id, int kind) {
            for (auto& e : model)
                if ((int)e.kind == kind && same(id, e))
                    return true;
            return false;
        };
        auto try_open = [&](const struct DeviceIdentifier& id,
                            const EnumDev* expect) {
            if (id.kind == DeviceKind_Camera) {
                struct Camera* c = camera_open(&dm, &id);
                if (expect && expect->describe_ok) {
                    if (!c)
                        oracle_fail("C12.enumerated_device_does_not_open",
                                    "camera_open failed for the enumerated "
                                    "identifier (%d,%d) '%s'",
                                    id.driver_id, id.device_id, id.name);
                    if (c->device.identifier.kind != DeviceKind_Camera ||
                        expect->name != c->device.identifier.name)
                        oracle_fail("C12.opened_device_differs",
                                    "opening (%d,%d) '%s' yields a device of "
                                    "kind %d named '%s'",
                                    id.driver_id, id.device_id, id.name,
                                    (int)c->device.identifier.kind,
                                    c->device.identifier.name);
                    probe("n.opens");
                }
                if (c)
                    camera_close(c);
            } else if (id.kind == DeviceKind_Storage) {
                struct Storage* s = storage_open(&dm, &id);
                if (expect && expect->describe_ok) {
                    if (!s)
                        oracle_fail("C12.enumerated_device_does_not_open",
                                    "storage_open failed for the enumerated "
                                    "identifier (%d,%d) '%s'",
                                    id.driver_id, id.device_id, id.name);
                    if (s->device.identifier.kind != DeviceKind_Storage ||
                        expect->name != s->device.identifier.name)
                        oracle_fail("C12.opened_device_differs",
                                    "opening (%d,%d) '%s' yields a device of "
                                    "kind %d named '%s'",
                                    id.driver_id, id.device_id, id.name,
                                    (int)s->device.identifier.kind,
                                    s->device.identifier.name);
                    probe("n.opens");
                }
                if (s)
                    storage_close(s);
            } else {
                // unknown kinds must simply be refused
                struct Camera* c = camera_open(&dm, &id);
                struct Storage* s = storage_open(&dm, &id);
                if (c || s)
                    oracle_fail("C12.unknown_kind_opened",
                                "an identifier of kind %d was opened",
                                (int)id.kind);
            }
        };

        for (auto& line : plan.ops) {
            Op op = parse_op(line);
            if (op.name == "lib" && !inited) {
                int l = (int)(op.i("i") % 6);
                std::string mode = op.s("mode", "absent");
                simdl::Lib lib;
                per_lib[l].clear();
                lib_loaded[l] = false;
                if (mode == "real" && l == 0) {
                    simdl::reset_common(&lib);
                    lib_loaded[l] = true;
                    static const struct
                    {
                        enum DeviceKind k;
                        const char* n;
                    } basics[] = { { DeviceKind_Camera,
                                     "simulated: uniform random" },
                                   { DeviceKind_Camera, "simulated: radial sin" },
                                   { DeviceKind_Camera, "simulated: empty" },
                                   { DeviceKind_Storage, "raw" },
                                   { DeviceKind_Storage, "tiff" },
                                   { DeviceKind_Storage, "trash" },
                                   { DeviceKind_Storage, "tiff-json" } };
                    for (int d = 0; d < 7; ++d)
                        per_lib[l].push_back(
                          EnumDev{ l, d, basics[d].k, basics[d].n, true });
                } else if ((mode == "mock" || mode == "noentry" ||
                            mode == "initnull") &&
                           mock_slot < 4 && l != 0) {
                    int slot = mock_slot++;
                    lib.present = true;
                    lib.has_entry = mode != "noentry";
                    lib.init = mode == "initnull" ? simdl::null_init()
                                                  : mock::driver_init(slot);
                    std::vector<mock::DeviceDesc> devs;
                    std::string dl = op.s("devs", "-");
                    if (mode == "mock" && dl != "-") {
                        size_t i = 0;
                        while (i < dl.size()) {
                            size_t c = dl.find(',', i);
                            std::string item = dl.substr(
                              i, c == std::string::npos ? c : c - i);
                            if (!item.empty()) {
                                enum DeviceKind k = item[0] == 'c'
                                                      ? DeviceKind_Camera
                                                      : DeviceKind_Storage;
                                devs.push_back(
                                  { k, hex_decode(item.substr(1)) });
                            }
                            if (c == std::string::npos)
                                break;
                            i = c + 1;
                        }
                    }
                    mock::define_driver(slot, devs);
                    baddescribe[slot] = (int)op.i("baddescribe", -1);
                    if (mode == "mock") {
                        lib_loaded[l] = true;
                        for (size_t d = 0; d < devs.size(); ++d)
                            per_lib[l].push_back(
                              EnumDev{ l, (int)d, devs[d].kind, devs[d].name,
                                       baddescribe[slot] != (int)d });
                    }
                } else {
                    lib.present = false;
                }
                simdl::set_lib(LIBS[l], lib);
                if (mode == "noentry")
                    probe("fault.library_without_entry_point");
                if (mode == "initnull")
                    probe("fault.library_init_returns_null");
                if (mode == "absent")
                    probe("fault.library_absent");
            } else if (op.name == "init" && !inited) {
                if (device_manager_init(&dm, quiet) != Device_Ok)
                    oracle_fail("C12.init_failed",
                                "device_manager_init failed although absent "
                                "or broken driver libraries are to be "
                                "tolerated");
                inited = true;
                for (int l = 0; l < 6; ++l)
                    for (auto& e : per_lib[l])
                        model.push_back(e);
                uint32_t n = device_manager_count(&dm);
                if (n != model.size())
                    oracle_fail("C12.count_differs",
                                "device_manager_count is %u but the present "
                                "libraries export %zu devices",
                                n, model.size());
                for (uint32_t i = 0; i < n; ++i) {
                    struct DeviceIdentifier id;
                    memset(&id, 0, sizeof(id));
                    enum DeviceStatusCode rc = device_manager_get(&id, &dm, i);
                    if (!model[i].describe_ok) {
                        probe("reach.describe_failed_entry");
                        continue; // error status expected either way
                    }
                    if (rc != Device_Ok || !same(id, model[i]))
                        oracle_fail("C12.enumeration_differs",
                                    "device %u is (%d,%d,kind %d,'%s') but "
                                    "the libraries export (%d,%d,kind %d,'%s') "
                                    "there",
                                    i, id.driver_id, id.device_id, (int)id.kind,
                                    id.name, model[i].driver_id,
                                    model[i].device_id, (int)model[i].kind,
                                    model[i].name.c_str());
                }
            } else if (!inited) {
                continue;
            } else if (op.name == "sel") {
                int kind = (int)op.i("kind");
                std::string pat = hex_decode(op.s("pat", "-"));
                std::string cls = op.s("class", "a");
                int pad = (int)op.i("pad", 0);
                std::string buf = pat;
                for (int i = 0; i < pad; ++i)
                    buf.push_back('\0');
                struct DeviceIdentifier id;
                memset(&id, 0xEE, sizeof(id));
                // exact-size heap copy: ASan guards over-reads
                char* exact = (char*)malloc(buf.size() ? buf.size() : 1);
                memcpy(exact, buf.data(), buf.size());
                enum DeviceStatusCode rc = device_manager_select(
                  &dm, (enum DeviceKind)kind, exact, buf.size(), &id);
                free(exact);
                if (rc != Device_Ok && rc != Device_Err)
                    oracle_fail("C12.bad_status", "select returned %d", (int)rc);
                {
                    // asked before on this manager? (the enumeration is fixed
                    // after init, so the answer must be the same)
                    char key[64];
                    snprintf(key, sizeof(key), "%d/%d/", kind, pad);
                    std::string k = key + op.s("pat", "-");
                    char val[400];
                    if (rc == Device_Ok)
                        snprintf(val, sizeof(val), "Ok (%d,%d) '%.255s'",
                                 (int)id.driver_id, (int)id.device_id, id.name);
                    else
                        snprintf(val, sizeof(val), "Err");
                    auto it = asked.find(k);
                    if (it == asked.end())
                        asked[k] = val;
                    else {
                        probe("reach.selection_repeated");
                        if (it->second != val)
                            oracle_fail(
                              "C12.selection_depends_on_history",
                              "select(kind %d, pattern '%s') answered %s "
                              "earlier on this device manager and answers %s "
                              "now (the enumeration has not changed)",
                              kind, pat.c_str(), it->second.c_str(), val);
                    }
                }
                if (cls == "a") {
                    bool any;
                    const EnumDev* e = first_match(kind, pat, &any);
                    // entries whose describe failed carry no usable name
                    bool judge = true;
                    for (auto& m : model)
                        if (!m.describe_ok)
                            judge = false;
                    if (judge) {
                        probe("n.selects_judged");
                        if (e && (rc != Device_Ok || !same(id, *e)))
                            oracle_fail(
                              "C12.wrong_selection",
                              "select(kind %d, pattern '%s') should return the "
                              "first matching device (%d,%d) '%s' but returned "
                              "status %d, device (%d,%d) '%s'",
                              kind, pat.c_str(), e->driver_id, e->device_id,
                              e->name.c_str(), (int)rc,
                              rc == Device_Ok ? id.driver_id : -1,
                              rc == Device_Ok ? id.device_id : -1,
                              rc == Device_Ok ? id.name : "");
                        if (!e && rc == Device_Ok)
                            oracle_fail(
                              "C12.selected_non_matching",
                              "select(kind %d, pattern '%s') matches no "
                              "enumerated device of that kind (whole name, "
                              "case-insensitive) but returned (%d,%d) '%s'",
                              kind, pat.c_str(), id.driver_id, id.device_id,
                              id.name);
                        if (!pat.empty() && pat[0] == '\0' && pad == 0)
                            probe("reach.leading_nul_pattern");
                        if (e)
                            probe("reach.select_found");
                        else
                            probe("reach.select_none");
                    }
                } else {
                    probe("n.arbitrary_patterns");
                    if (rc == Device_Ok && !is_enumerated(id, kind))
                        oracle_fail("C12.selected_not_enumerated",
                                    "select with an arbitrary pattern returned "
                                    "an identifier that was never enumerated "
                                    "for kind %d",
                                    kind);
                }
            } else if (op.name == "first" || op.name == "default") {
                int kind = (int)op.i("kind");
                struct DeviceIdentifier id;
                memset(&id, 0xEE, sizeof(id));
                enum DeviceStatusCode rc =
                  op.name == "first"
                    ? device_manager_select_first(&dm, (enum DeviceKind)kind,
                                                  &id)
                    : device_manager_select_default(&dm, (enum DeviceKind)kind,
                                                    &id);
                std::string pat;
                bool defined = true;
                if (op.name == "default") {
                    if (kind == DeviceKind_Camera)
                        pat = ".*random.*";
                    else if (kind == DeviceKind_Storage)
                        pat = "trash";
                    else
                        defined = false;
                }
                bool judge = true;
                for (auto& m : model)
                    if (!m.describe_ok)
                        judge = false;
                if (!defined) {
                    if (rc == Device_Ok)
                        oracle_fail("C12.default_for_unknown_kind",
                                    "select_default(kind %d) succeeded", kind);
                } else if (judge) {
                    bool any;
                    const EnumDev* e = first_match(kind, pat, &any);
                    if (e && (rc != Device_Ok || !same(id, *e)))
                        oracle_fail("C12.wrong_selection",
                                    "%s(kind %d) should return (%d,%d) '%s' "
                                    "but returned status %d",
                                    op.name.c_str(), kind, e->driver_id,
                                    e->device_id, e->name.c_str(), (int)rc);
                    if (!e && rc == Device_Ok)
                        oracle_fail("C12.selected_non_matching",
                                    "%s(kind %d) returned (%d,%d) '%s' "
                                    "although nothing matches",
                                    op.name.c_str(), kind, id.driver_id,
                                    id.device_id, id.name);
                    probe("n.selects_judged");
                }
            } else if (op.name == "get") {
                int64_t i = op.i("i");
                struct DeviceIdentifier id;
                memset(&id, 0, sizeof(id));
                enum DeviceStatusCode rc =
                  device_manager_get(&id, &dm, (uint32_t)i);
                if ((i < 0 || (size_t)i >= model.size()) && rc == Device_Ok)
                    oracle_fail("C12.out_of_range_index_accepted",
                                "device_manager_get(%lld) succeeded with %zu "
                                "devices",
                                (long long)i, model.size());
                probe("n.gets");
            } else if (op.name == "open") {
                if (model.empty())
                    continue;
                const EnumDev& e = model[(size_t)op.i("i") % model.size()];
                struct DeviceIdentifier id;
                memset(&id, 0, sizeof(id));
                id.driver_id = (uint8_t)e.driver_id;
                id.device_id = (uint8_t)e.device_id;
                id.kind = e.kind;
                snprintf(id.name, sizeof(id.name), "%s", e.name.c_str());
                int corrupt = (int)op.i("corrupt", 0);
                if (corrupt == 1)
                    id.driver_id = (uint8_t)(6 + op.i("i") % 200);
                else if (corrupt == 2)
                    id.device_id = (uint8_t)(per_lib[e.driver_id].size() +
                                             op.i("i") % 100);
                else if (corrupt == 3)
                    id.kind = DeviceKind_Unknown;
                else if (corrupt == 4) {
                    // an absent library's slot
                    for (int l = 0; l < 6; ++l)
                        if (!lib_loaded[l])
                            id.driver_id = (uint8_t)l;
                }
                if (corrupt)
                    probe("reach.corrupted_identifier");
                bool still_valid =
                  corrupt == 0 ||
                  (corrupt == 4 && id.driver_id == e.driver_id);
                try_open(id, still_valid ? &e : nullptr);
                if (corrupt == 1 || corrupt == 2 ||
                    (corrupt == 4 && id.driver_id != e.driver_id)) {
                    // must have been refused: nothing may be left open
                    if (mock::open_instances() != 0)
                        oracle_fail("C12.corrupt_identifier_opened",
                                    "a corrupted identifier left a device "
                                    "open");
                }
            } else if (op.name == "drvprobe") {
                simdl::Lib lib;
                simdl::reset_common(&lib);
                struct Driver* d = lib.init ? lib.init(quiet) : nullptr;
                if (!d)
                    continue;
                uint32_t n = d->device_count(d);
                int64_t k = op.i("i");
                // indices around the end of the table and far beyond it
                static const uint64_t far[] = { 255, 256, 65535, 1ull << 32,
                                                UINT64_MAX };
                uint64_t idx = k < 8 ? (uint64_t)((int64_t)n - 4 + k)
                                     : far[(k - 8) % 5];
                struct DeviceIdentifier id;
                memset(&id, 0xEE, sizeof(id));
                enum DeviceStatusCode rc = d->describe(d, &id, idx);
                probe("n.driver_probes");
                if (idx >= n && rc == Device_Ok)
                    oracle_fail("C12.out_of_range_index_described",
                                "the bundled driver has %u devices but "
                                "describe(%llu) returned Device_Ok ('%.40s')",
                                n, (unsigned long long)idx, id.name);
                if (idx < n && rc != Device_Ok)
                    oracle_fail("C12.enumerated_index_not_described",
                                "the bundled driver has %u devices but "
                                "describe(%llu) failed",
                                n, (unsigned long long)idx);
                if (idx >= n) {
                    struct Device* dev = nullptr;
                    if (d->open(d, idx, &dev) == Device_Ok)
                        oracle_fail("C12.out_of_range_index_opened",
                                    "the bundled driver has %u devices but "
                                    "open(%llu) returned Device_Ok",
                                    n, (unsigned long long)idx);
                }
                free(d); // (its shutdown() would tear down state shared
                         // with the manager's instance)
            } else if (op.name == "openall") {
                for (auto& e : model) {
                    if (!e.describe_ok)
                        continue;
                    struct DeviceIdentifier id;
                    memset(&id, 0, sizeof(id));
                    if (device_manager_get(&id, &dm, (uint32_t)(&e - &model[0])) !=
                        Device_Ok)
                        oracle_fail("C12.enumeration_differs",
                                    "device_manager_get(%zu) failed",
                                    (size_t)(&e - &model[0]));
                    try_open(id, &e);
                }
            }
            hash_u64(mix64(0xd3, (uint64_t)std::hash<std::string>()(line)));
        }
        if (inited) {
            device_manager_destroy(&dm);
            if (simdl::open_handles() != 0)
                oracle_fail("C12.library_handle_leaked",
                            "%d driver library handles are still open after "
                            "device_manager_destroy",
                            simdl::open_handles());
        }
    }
};

static DmHarness g_dm;

struct Reg
{
    Reg()
    {
        register_harness(&g_dm);
        CheckSpec c;
        c.property = "C12";
        c.harness = "dm";
        c.level = "exploration";
        c.design_ref = "DESIGN.md section 4, C12";
        c.technique =
          "seeded input generation riding on the simulated loader: generated "
          "library presence / broken-library faults and device tables behind "
          "the dl seam; name patterns from a constructive grammar judged by "
          "an independent backtracking matcher, plus arbitrary byte patterns "
          "judged for 'error, not crash'";
        c.rule =
          "a case is one generated configuration (which of the six driver "
          "libraries exist, which lack the entry point / fail to initialise / "
          "fail describe, the mock libraries' device tables with mixed-case, "
          "metacharacter, duplicate and long names) plus a sequence of "
          "count/get/select/select_first/select_default/open calls; "
          "non-trivial = at least one selection was judged against the "
          "independent matcher and one enumerated device opened; distinct = "
          "distinct run fingerprint";
        c.profiles = { { "cfg", 25000, 500000, false } };
        c.real_components = {
            "acquire-core-libs/src/acquire-device-hal/device/hal/"
            "device.manager.cpp, loader.c, driver.c, camera.c (open/close), "
            "storage.c (open/close)",
            "acquire-core-libs/src/acquire-core-platform/linux/platform.c "
            "(lib_open_by_name, lib_load, lib_close)",
            "acquire-driver-common/src/basics.driver.c and the devices it "
            "opens"
        };
        c.stub_components = {
            "dlopen/dlsym/dlclose/dladdr/realpath: dl seam (sim/seams.cpp)",
            "optional driver libraries: world/mockdrv.cpp with generated "
            "device tables"
        };
        c.assumptions = {
            "the pattern clause is a function of its input: it is decided by "
            "seeded generation, the simulation contributes the "
            "library-presence and loader-fault dimension (DESIGN section 5)",
            "constructive patterns use literals, '.', bracket sets without "
            "ranges, '*', '+', '?' and top-level '|'",
            "selections are only judged against the matcher when every "
            "enumerated entry could be described"
        };
        c.reach_probes = { "reach.select_found", "reach.select_none",
                           "reach.leading_nul_pattern",
                           "fault.library_without_entry_point",
                           "fault.library_init_returns_null",
                           "reach.describe_failed_entry",
                           "reach.corrupted_identifier",
                           "n.arbitrary_patterns" };
        register_check(c);
    }
} g_reg;

} // namespace
