// Harness `rt`: the real runtime (acquire.c, source/filter/sink, channel,
// vfslice, frame iterator, throttler, HAL, device manager, loader, platform.c)
// on the simulation kernel, with the mock driver as "the world".
// Serves C04-C10.  DESIGN.md section 4.
#include "../sim/files.h"
#include "../sim/harness.h"
#include "../sim/seams.h"
#include "../sim/super.h"
#include "../world/mockdrv.h"

#include <math.h>
#include <stdarg.h>
#include <stdio.h>
#include <stdlib.h>
#include <string.h>

#include <deque>
#include <map>
#include <tuple>

extern "C"
{
#include "acquire.h"
#include "device/hal/device.manager.h"
}

using namespace sim;

namespace {

const uint64_t INF_FRAMES = ~0ull;

// device table of the mock driver (driver slot 1 = "acquire-driver-hdcam")
enum
{
    DEV_CAM0 = 0,
    DEV_CAM1 = 1,
    DEV_CAMB = 2,
    DEV_STO0 = 3,
    DEV_STO1 = 4,
    DEV_STOB = 5,
};

static size_t
bytes_per_px(int type)
{
    switch (type) {
        case SampleType_u8:
        case SampleType_i8:
            return 1;
        case SampleType_f32:
            return 4;
        default:
            return 2;
    }
}

static size_t
align8(size_t v)
{
    return (v + 7) & ~(size_t)7;
}

static void
fill_pixels(uint8_t* dst, size_t n, int camdev, int acq, uint64_t hw)
{
    Rng r(mix64(mix64((uint64_t)camdev * 1315423911u + 7, (uint64_t)acq),
                hw * 2654435761u + 13));
    size_t i = 0;
    while (i + 8 <= n) {
        uint64_t v = r.next();
        memcpy(dst + i, &v, 8);
        i += 8;
    }
    if (i < n) {
        uint64_t v = r.next();
        memcpy(dst + i, &v, n - i);
    }
}

struct FrameRec
{
    int camdev;
    int acq;
    uint64_t hw;
    uint64_t ts;
    struct ImageShape shape;
    size_t nbytes;
    uint64_t seq;
};

struct CamScript
{
    int64_t exposure_us = 0;
    int64_t fail_frame = -1; // ordinal of the get_frame call that fails
    int64_t gap_at = -1;     // hardware id jumps by 3 at this ordinal
    int64_t zero_at = -1;    // this ordinal returns a zero-size frame
    int fail_start = 0;
    int fail_set = 0;
    int fail_stop = 0; // the next stop() stops the camera but reports an error
    // first hardware frame id of every run (a camera need not count from 0;
    // kept below 2^39: the mock's timestamps carry the id in their low bits)
    int64_t hw_base = 0;
    // interleaved channels per pixel the camera reports (1 = mono)
    int channels = 1;
};

struct CamState
{
    struct CameraProperties props;
    struct ImageShape shape;
    bool running = false;
    int acq = 0;
    uint64_t hw_next = 0;
    uint64_t calls = 0; // get_frame calls in this epoch
    int64_t triggers_pending = 0;
    uint64_t triggers_invoked = 0;
    uint64_t next_time = 0;
    CamScript script;
    int starts = 0;
};

struct Packet
{
    int acq;
    uint64_t seq;
    std::vector<uint8_t> bytes;
};

struct StoScript
{
    int64_t fail_append = -1; // ordinal of the append call that fails
    int64_t slow_us = 0;
    int fail_start = 0;
};

struct StoState
{
    bool running = false;
    int acq = 0;
    uint64_t appends = 0; // in this epoch
    bool failed = false;
    uint64_t appends_after_fault = 0;
    StoScript script;
    std::vector<Packet> packets;
    std::vector<int> start_acqs;
};

struct StreamCfg
{
    bool valid = false;
    std::string cam = "none", sto = "none";
    int camdev = -1, stodev = -1;
    uint64_t n = 1;
    int w = 4, h = 4, type = 0;
    int avg = 0;
    int64_t delay_us = 0;
    int trig = 0;
    CamScript cs;
    StoScript ss;
    bool faulty() const
    {
        return cs.fail_frame >= 0 || ss.fail_append >= 0 || cs.fail_start ||
               cs.fail_set || cs.fail_stop || ss.fail_start;
    }
};

struct AcqRec
{
    int id = 0;
    StreamCfg cfg[2];
    bool start_ok = false;
    std::string ended; // stop | abort | self
    uint64_t end_invoked_seq = 0, end_returned_seq = 0;
    bool judged = false;
    bool disturbed = false; // e.g. a second start while running
};

struct MonObs
{
    // last frame seen per acquisition
    int last_acq = -1;
    uint64_t next_id = 0;
    bool any = false;
    uint64_t first_map_seq = 0;
    // acquisitions whose stop/abort call overlapped a period in which this
    // client was inside map/unmap or held a mapped region
    std::vector<int> raced;
    size_t excused_failures = 0;
    bool is_raced(int acq) const
    {
        for (int a : raced)
            if (a == acq)
                return true;
        return false;
    }
};

struct World
{
    struct AcquireRuntime* rt = nullptr;
    const struct DeviceManager* dm = nullptr;
    CamState cam[3];
    StoState sto[3];
    std::map<std::tuple<int, int, uint64_t>, FrameRec> frames; // by cam,acq,hw
    std::vector<FrameRec> delivered[3];                         // in order
    StreamCfg pending[2];
    StreamCfg applied[2]; // what the last acquire_configure was given
    size_t ring_sink[2] = { 0, 0 }, ring_filter[2] = { 0, 0 };
    int last_camdev[2] = { -1, -1 }, last_stodev[2] = { -1, -1 }; // per stream
    std::deque<AcqRec> acqs;
    int acq_id = 0;
    bool running_expected = false;
    uint64_t seq = 0;
    bool mon_stop[2] = { false, false };
    int mon_tid[2] = { -1, -1 };
    bool mon_ever[2] = { false, false };
    bool mon_finite[2] = { false, false };
    std::vector<int> drainers;
    bool drain_stop = false;
    MonObs mon[2];
    bool autotrig_stop = false;
    std::vector<int> helper_tids;
    size_t frame_hdr = sizeof(struct VideoFrame);
    int log_errors = 0;
    bool shut = false;
    bool real_devices = false;
    double devlat_p = 0;
    int64_t devlat_max_ns = 1;
    Rng devrng{ 1 };
};

static World* W;

static void
reporter(int is_error, const char* file, int line, const char* fn,
         const char* msg)
{
    (void)file;
    (void)fn;
    if (is_error && W)
        W->log_errors++;
    const char* base = strrchr(file, '/');
    logline("%s%s:%d %s", is_error ? "E " : "", base ? base + 1 : file, line,
            msg);
    yield_point("log");
}

static int
camdev_index(int dev)
{
    return dev; // 0..2
}
static int
stodev_index(int dev)
{
    return dev - DEV_STO0; // 0..2
}

// --------------------------------------------------------------- C05 walker
struct WalkCtx
{
    const char* where;
    int stream; // -1 unknown
};

static bool
soft_fail(const char* id, const char* fmt, ...)
  __attribute__((format(printf, 2, 3)));

// Walks a packet; calls cb for each frame.  Verifies the C05 clauses (when C05
// is not the property being checked a broken chain just ends the walk: the
// frames behind it are then missing for whoever consumes the packet).
template<typename F>
static void
walk_packet(const uint8_t* beg, size_t nbytes, const char* where, F cb)
{
    if (((uintptr_t)beg & 7) != 0)
        if (soft_fail("C05.unaligned_packet",
                    "%s: packet does not start on an 8-byte boundary", where))
            return;
    const uint8_t* p = beg;
    const uint8_t* end = beg + nbytes;
    int k = 0;
    while (p < end) {
        if ((size_t)(end - p) < sizeof(struct VideoFrame))
            if (soft_fail("C05.torn_frame",
                        "%s: %zu trailing bytes after frame %d are smaller "
                        "than a frame header",
                        where, (size_t)(end - p), k))
                return;
        const struct VideoFrame* f = (const struct VideoFrame*)p;
        size_t bof = f->bytes_of_frame;
        size_t img = (size_t)f->shape.dims.width * f->shape.dims.height *
                     f->shape.dims.channels * f->shape.dims.planes *
                     bytes_per_px((int)f->shape.type);
        if (bof != sizeof(struct VideoFrame) + align8(img))
            if (soft_fail("C05.bad_size_field",
                        "%s: frame %d has bytes_of_frame=%zu but header (%zu) "
                        "+ image bytes (%zu) rounded up to 8 is %zu",
                        where, k, bof, sizeof(struct VideoFrame), img,
                        sizeof(struct VideoFrame) + align8(img)))
                return;
        if (bof > (size_t)(end - p))
            if (soft_fail("C05.torn_frame",
                        "%s: frame %d (%zu bytes) extends past the end of the "
                        "packet (%zu bytes left)",
                        where, k, bof, (size_t)(end - p)))
                return;
        cb(f);
        p += bof;
        ++k;
    }
}

static const FrameRec*
find_frame(int camdev, int acq, uint64_t hw)
{
    auto it = W->frames.find(std::make_tuple(camdev, acq, hw));
    return it == W->frames.end() ? nullptr : &it->second;
}

static int
acq_of_ts(uint64_t ts)
{
    return (int)(ts >> 40);
}

static bool
same_dims(const struct ImageShape& a, const struct ImageShape& b)
{
    return memcmp(&a.dims, &b.dims, sizeof(a.dims)) == 0 &&
           memcmp(&a.strides, &b.strides, sizeof(a.strides)) == 0;
}

// expected f32 mean of pixel p over window frames; true = a foreign oracle
// fired (the caller skips the rest of its judgement)
static bool
judge_fail(const char* id, const char* fmt, ...)
  __attribute__((format(printf, 2, 3)));
static bool
check_mean_frame(const struct VideoFrame* f, int camdev, int acq,
                 const std::vector<FrameRec>& G, size_t first, int k,
                 const char* where, const char* oracle_prefix)
{
    size_t npx = (size_t)f->shape.dims.width * f->shape.dims.height;
    std::vector<std::vector<uint8_t>> in((size_t)k);
    int type = (int)G[first].shape.type;
    for (int j = 0; j < k; ++j) {
        in[(size_t)j].resize(G[first + (size_t)j].nbytes);
        fill_pixels(in[(size_t)j].data(), in[(size_t)j].size(), camdev, acq,
                    G[first + (size_t)j].hw);
    }
    const float* out = (const float*)f->data;
    for (size_t p = 0; p < npx; ++p) {
        double sum = 0;
        for (int j = 0; j < k; ++j) {
            const uint8_t* d = in[(size_t)j].data();
            switch (type) {
                case SampleType_u8:
                    sum += d[p];
                    break;
                case SampleType_i8:
                    sum += (int8_t)d[p];
                    break;
                case SampleType_i16: {
                    int16_t v;
                    memcpy(&v, d + 2 * p, 2);
                    sum += v;
                    break;
                }
                default: {
                    uint16_t v;
                    memcpy(&v, d + 2 * p, 2);
                    sum += v;
                    break;
                }
            }
        }
        float want = (float)(sum / (double)k);
        float lo = nextafterf(want, -INFINITY), hi = nextafterf(want, INFINITY);
        // one more ulp for the float multiply by 1/k
        lo = nextafterf(lo, -INFINITY);
        hi = nextafterf(hi, INFINITY);
        if (!(out[p] >= lo && out[p] <= hi)) {
            std::string id = std::string(oracle_prefix) + ".wrong_mean";
            if (judge_fail(id.c_str(),
                           "%s: averaged frame id %llu pixel %zu is %.9g but "
                           "the mean of the %d input frames (hardware ids "
                           "%llu..) is %.9g",
                           where, (unsigned long long)f->frame_id, p,
                           (double)out[p], k, (unsigned long long)G[first].hw,
                           (double)want))
                return true;
        }
    }
    return false;
}

// ------------------------------------------------------------ mock hooks
static void
install_hooks()
{
    mock::Hooks& H = mock::hooks();
    // Device calls are preemption points on entry and on return, and (a
    // buggify knob drawn per run) occasionally slow: a real camera's stop or
    // a storage device's start may take tens of milliseconds.
    H.enter = [](const char* call, int) {
        yield_point(call);
        if (W->devlat_p > 0 && W->devrng.chance(W->devlat_p)) {
            probe("fault.slow_device_call");
            sleep_ns(1000 + W->devrng.below((uint64_t)W->devlat_max_ns));
        }
    };
    H.leave = [](const char* call, int) { yield_point(call); };
    H.cam_set = [](int inst, struct CameraProperties* p) -> int {
        CamState& c = W->cam[camdev_index(mock::instance(inst).dev)];
        if (c.script.fail_set)
            return Device_Err;
        c.props = *p;
        if (c.props.shape.x < 1)
            c.props.shape.x = 1;
        if (c.props.shape.y < 1)
            c.props.shape.y = 1;
        if (c.props.shape.x > 64)
            c.props.shape.x = 64;
        if (c.props.shape.y > 64)
            c.props.shape.y = 64;
        memset(&c.shape, 0, sizeof(c.shape));
        const uint32_t ch = (uint32_t)std::max(1, c.script.channels);
        c.shape.dims = { ch, c.props.shape.x, c.props.shape.y, 1 };
        c.shape.strides = { 1, (int64_t)ch, (int64_t)ch * c.props.shape.x,
                            (int64_t)ch * c.props.shape.x * c.props.shape.y };
        c.shape.type = c.props.pixel_type;
        *p = c.props;
        return Device_Ok;
    };
    H.cam_get = [](int inst, struct CameraProperties* p) -> int {
        *p = W->cam[camdev_index(mock::instance(inst).dev)].props;
        return Device_Ok;
    };
    H.cam_get_shape = [](int inst, struct ImageShape* s) -> int {
        *s = W->cam[camdev_index(mock::instance(inst).dev)].shape;
        return Device_Ok;
    };
    H.cam_start = [](int inst) -> int {
        // "is started only when armed" (C08): the HAL-maintained state field
        // of the device must say Armed when the driver sees start()
        int dev = mock::instance(inst).dev;
        CamState& c = W->cam[camdev_index(dev)];
        const struct Camera* obj = (const struct Camera*)mock::instance(inst).object;
        if (obj->state != DeviceState_Armed)
            oracle_fail("C08.start_when_not_armed",
                        "camera #%d: driver start() called while the HAL "
                        "state is %d (not Armed)",
                        dev, (int)obj->state);
        if (c.running)
            oracle_fail("C08.start_without_stop",
                        "camera #%d: started again without an intervening "
                        "stop",
                        dev);
        if (c.script.fail_start) {
            probe("fault.camera_start_fails");
            return Device_Err;
        }
        c.running = true;
        c.acq = W->acq_id;
        c.hw_next = (uint64_t)c.script.hw_base;
        c.calls = 0;
        c.triggers_pending = 0;
        c.next_time = now_ns();
        c.starts++;
        return Device_Ok;
    };
    H.cam_stop = [](int inst) -> int {
        CamState& c = W->cam[camdev_index(mock::instance(inst).dev)];
        c.running = false;
        if (c.script.fail_stop) {
            c.script.fail_stop = 0;
            probe("fault.camera_stop_fails");
            return Device_Err;
        }
        return Device_Ok;
    };
    H.cam_trigger = [](int inst) -> int {
        CamState& c = W->cam[camdev_index(mock::instance(inst).dev)];
        c.triggers_invoked++;
        c.triggers_pending++;
        probe("n.triggers");
        return Device_Ok;
    };
    H.cam_get_frame = [](int inst, void* im, size_t* nbytes,
                         struct ImageInfo* info) -> int {
        int dev = mock::instance(inst).dev;
        CamState& c = W->cam[camdev_index(dev)];
        uint64_t ord = c.calls++;
        size_t need = (size_t)c.shape.dims.channels * c.shape.dims.width *
                      c.shape.dims.height * bytes_per_px((int)c.shape.type);
        if (*nbytes < need)
            oracle_fail("C05.buffer_smaller_than_image",
                        "camera #%d: the runtime offers a %zu-byte buffer for "
                        "a %zu-byte image",
                        dev, *nbytes, need);
        if ((int64_t)ord == c.script.fail_frame) {
            probe("fault.camera_frame_fails");
            return Device_Err;
        }
        // pacing
        if (c.script.exposure_us > 0) {
            uint64_t t = now_ns();
            if (c.next_time > t)
                sleep_ns(c.next_time - t);
            c.next_time = std::max(c.next_time, now_ns()) +
                          (uint64_t)c.script.exposure_us * 1000;
        }
        // software trigger
        if (c.props.input_triggers.frame_start.enable) {
            probe("reach.camera_waits_for_trigger");
            while (c.running && c.triggers_pending <= 0)
                sleep_ns(50000);
            if (c.triggers_pending > 0)
                c.triggers_pending--;
        }
        if (!c.running) {
            // stopped while the call was pending: no frame
            *nbytes = 0;
            return Device_Ok;
        }
        if ((int64_t)ord == c.script.zero_at) {
            probe("reach.zero_size_frame");
            *nbytes = 0;
            return Device_Ok;
        }
        if ((int64_t)ord == c.script.gap_at) {
            probe("reach.hardware_id_gap");
            c.hw_next += 3;
        }
        FrameRec fr;
        fr.camdev = camdev_index(dev);
        fr.acq = c.acq;
        fr.hw = c.hw_next++;
        fr.ts = ((uint64_t)c.acq << 40) | fr.hw;
        fr.shape = c.shape;
        fr.nbytes = need;
        fr.seq = ++W->seq;
        fill_pixels((uint8_t*)im, need, fr.camdev, fr.acq, fr.hw);
        *nbytes = need;
        info->shape = c.shape;
        info->hardware_frame_id = fr.hw;
        info->hardware_timestamp = fr.ts;
        W->frames[std::make_tuple(fr.camdev, fr.acq, fr.hw)] = fr;
        W->delivered[fr.camdev].push_back(fr);
        probe("n.frames_delivered");
        progress_kick();
        return Device_Ok;
    };
    H.st_set = [](int, const struct StorageProperties*) -> int {
        return DeviceState_Armed;
    };
    H.st_start = [](int inst) -> int {
        int dev = mock::instance(inst).dev;
        StoState& s = W->sto[stodev_index(dev)];
        const struct Storage* obj =
          (const struct Storage*)mock::instance(inst).object;
        if (obj->state != DeviceState_Armed)
            oracle_fail("C08.start_when_not_armed",
                        "storage #%d: driver start() called while the HAL "
                        "state is %d (not Armed)",
                        dev, (int)obj->state);
        if (s.running)
            oracle_fail("C08.start_without_stop",
                        "storage #%d: started again without an intervening "
                        "stop",
                        dev);
        if (s.script.fail_start) {
            probe("fault.storage_start_fails");
            return DeviceState_AwaitingConfiguration;
        }
        s.running = true;
        s.acq = W->acq_id;
        s.appends = 0;
        s.failed = false;
        s.start_acqs.push_back(s.acq);
        return DeviceState_Running;
    };
    H.st_stop = [](int inst) -> int {
        W->sto[stodev_index(mock::instance(inst).dev)].running = false;
        return DeviceState_Armed;
    };
    H.st_append = [](int inst, const struct VideoFrame* f,
                     size_t* nbytes) -> int {
        int dev = mock::instance(inst).dev;
        StoState& s = W->sto[stodev_index(dev)];
        uint64_t ord = s.appends++;
        if (s.failed) {
            s.appends_after_fault++;
            oracle_fail("C09.append_after_storage_failure",
                        "storage #%d received append #%llu after its append "
                        "had failed in acquisition %d",
                        dev, (unsigned long long)ord, s.acq);
        }
        char where[96];
        snprintf(where, sizeof(where), "storage #%d append #%llu (acq %d)", dev,
                 (unsigned long long)ord, s.acq);
        // the shape the camera of this stream reports (f32 once averaged);
        // judged here as well as at the end, because a stream that never
        // ends is never judged at its end
        const struct ImageShape* want = nullptr;
        bool averaged = false;
        for (auto it = W->acqs.rbegin(); it != W->acqs.rend(); ++it) {
            if (it->id != s.acq)
                continue;
            int users = 0;
            for (int st = 0; st < 2; ++st) {
                const StreamCfg& c = it->cfg[st];
                if (!c.valid || c.stodev != dev)
                    continue;
                ++users;
                if (c.camdev >= 0) {
                    want = &W->cam[camdev_index(c.camdev)].shape;
                    averaged = c.avg >= 2;
                }
            }
            if (users != 1)
                want = nullptr;
            break;
        }
        walk_packet((const uint8_t*)f, *nbytes, where,
                    [&](const struct VideoFrame* fr) {
                        if (!want)
                            return;
                        int type = averaged ? (int)SampleType_f32
                                            : (int)want->type;
                        if (memcmp(&fr->shape.dims, &want->dims,
                                   sizeof(want->dims)) != 0 ||
                            (int)fr->shape.type != type)
                            (void)soft_fail(
                              "C05.shape_differs_from_camera",
                              "%s: a frame of %ux%u, sample type %d, although "
                              "the stream's camera reports %ux%u, type %d",
                              where, fr->shape.dims.width,
                              fr->shape.dims.height, (int)fr->shape.type,
                              want->dims.width, want->dims.height, type);
                    });
        if ((int64_t)ord == s.script.fail_append) {
            probe("fault.storage_append_fails");
            s.failed = true;
            s.running = false;
            return DeviceState_AwaitingConfiguration;
        }
        if (s.script.slow_us > 0)
            sleep_ns((uint64_t)s.script.slow_us * 1000);
        Packet pk;
        pk.acq = s.acq;
        pk.seq = ++W->seq;
        pk.bytes.assign((const uint8_t*)f, (const uint8_t*)f + *nbytes);
        s.packets.push_back(std::move(pk));
        probe("n.appends");
        progress_kick();
        return DeviceState_Running;
    };
}

// ------------------------------------------------------------- judging
struct StoredFrame
{
    const struct VideoFrame* f;
};

static std::vector<const struct VideoFrame*>
stored_frames(int stodev, int acq)
{
    std::vector<const struct VideoFrame*> v;
    for (auto& pk : W->sto[stodev].packets) {
        if (pk.acq != acq)
            continue;
        walk_packet(pk.bytes.data(), pk.bytes.size(), "stored packet",
                    [&](const struct VideoFrame* f) { v.push_back(f); });
    }
    return v;
}

static std::vector<FrameRec>
delivered_frames(int camdev, int acq)
{
    std::vector<FrameRec> v;
    for (auto& fr : W->delivered[camdev])
        if (fr.acq == acq)
            v.push_back(fr);
    return v;
}

// Storage-content failures.  Under C07 ("gap-free prefix ... a subsequent
// configure/start/stop yields a complete, correct acquisition") and C09 ("a
// later fault-free acquisition is complete and correct") the same judgement
// is a clause of the property being checked, so it is reported under that
// property's name.
// Returns only when the oracle belongs to another property than the one being
// checked: the observation is counted (other.<id>) and the caller skips the
// rest of THAT judgement, but the run goes on, so that a foreign oracle never
// ends a run before the active property's own oracles have looked.
static bool
soft_fail(const char* id, const char* fmt, ...)
  __attribute__((format(printf, 2, 3)));
static bool
soft_fail(const char* id, const char* fmt, ...)
{
    char buf[2048];
    va_list ap;
    va_start(ap, fmt);
    vsnprintf(buf, sizeof(buf), fmt, ap);
    va_end(ap);
    if (oracle_gates(id))
        oracle_fail(id, "%s", buf); // does not return
    probe((std::string("other.") + id).c_str());
    return true;
}

static bool
judge_fail(const char* id, const char* fmt, ...)
  __attribute__((format(printf, 2, 3)));
static bool
judge_fail(const char* id, const char* fmt, ...)
{
    char buf[2048];
    va_list ap;
    va_start(ap, fmt);
    vsnprintf(buf, sizeof(buf), fmt, ap);
    va_end(ap);
    std::string oid = id;
    const std::string& ap_ = active_property();
    if ((ap_ == "C07" || ap_ == "C09") &&
        (oid.rfind("C04.", 0) == 0 || oid.rfind("C10.", 0) == 0))
        oid = ap_ + oid.substr(3);
    return soft_fail(oid.c_str(), "%s", buf);
}
#define JUDGE(...)                                                             \
    do {                                                                       \
        if (judge_fail(__VA_ARGS__))                                           \
            return;                                                            \
    } while (0)
#define SOFT(...)                                                              \
    do {                                                                       \
        if (soft_fail(__VA_ARGS__))                                            \
            return;                                                            \
    } while (0)

// A stream that the last acquire_configure de-selected (no camera, no
// storage) takes no part in the acquisition: the devices it used before stay
// open but are not started.
static void
judge_deselected(const AcqRec& a)
{
    for (int s = 0; s < 2; ++s) {
        const StreamCfg& c = a.cfg[s];
        if (!c.valid || c.camdev >= 0 || c.stodev >= 0)
            continue;
        const StreamCfg& o = a.cfg[1 - s];
        int sd = W->last_stodev[s], cd = W->last_camdev[s];
        bool st_started = false;
        if (sd >= 0 && !(o.valid && o.stodev == sd))
            for (int x : W->sto[stodev_index(sd)].start_acqs)
                st_started |= x == a.id;
        bool cam_started = cd >= 0 && !(o.valid && o.camdev == cd) &&
                           W->cam[camdev_index(cd)].starts > 0 &&
                           W->cam[camdev_index(cd)].acq == a.id;
        if (!st_started && !cam_started)
            continue;
        const char* fmt = "acquisition %d: stream %d was de-selected by the "
                          "last acquire_configure, yet its %s device was "
                          "started";
        if (oracle_gates("C08.deselected_stream_started"))
            oracle_fail("C08.deselected_stream_started", fmt, a.id, s,
                        st_started ? "storage" : "camera");
        if (judge_fail("C04.deselected_stream_started", fmt, a.id, s,
                       st_started ? "storage" : "camera"))
            continue;
    }
}

// storage content of one stream of one acquisition versus the camera
static void
judge_stream(const AcqRec& a, int s)
{
    const StreamCfg& c = a.cfg[s];
    if (!c.valid || c.camdev < 0 || c.stodev < 0)
        return;
    int sd = stodev_index(c.stodev);
    bool storage_started = false;
    for (int x : W->sto[sd].start_acqs)
        storage_started |= x == a.id;
    if (!storage_started) {
        if (a.start_ok && !c.faulty() && !a.disturbed)
            JUDGE("C04.stream_not_started",
                        "acquisition %d stream %d: acquire_start succeeded but "
                        "the storage device never saw start()",
                        a.id, s);
        return;
    }
    std::vector<const struct VideoFrame*> F = stored_frames(sd, a.id);
    std::vector<FrameRec> G = delivered_frames(camdev_index(c.camdev), a.id);
    const bool clean = a.ended == "stop" && !c.faulty() && !a.disturbed &&
                       a.start_ok;
    const char* P = c.avg > 1 ? "C10" : "C04";
    char id[64];
    {
        // did this acquisition alone write more than a ring holds?
        size_t in_b = sizeof(struct VideoFrame) +
                      align8((size_t)c.cs.channels * c.w * c.h *
                             bytes_per_px(c.type));
        size_t out_b = c.avg > 1 ? sizeof(struct VideoFrame) +
                                     align8((size_t)c.w * c.h * 4)
                                 : in_b;
        if (c.avg > 1 && G.size() * in_b > W->ring_filter[s])
            probe("reach.wraps");
        if (F.size() * out_b > W->ring_sink[s])
            probe("reach.wraps");
    }
    if (c.avg > 1) {
        // ---- averaging: one f32 frame per complete window of k inputs
        int k = c.avg;
        size_t complete = G.size() / (size_t)k;
        if (clean) {
            if (G.size() != c.n)
                JUDGE("C10.camera_frame_count",
                            "acquisition %d stream %d: camera delivered %zu "
                            "frames for max_frame_count=%llu",
                            a.id, s, G.size(), (unsigned long long)c.n);
            if (F.size() < complete || F.size() > complete + 1)
                JUDGE("C10.window_count",
                            "acquisition %d stream %d: storage received %zu "
                            "averaged frames for %zu input frames with window "
                            "%d (expected %zu complete windows, at most one "
                            "extra)",
                            a.id, s, F.size(), G.size(), k, complete);
        } else if (F.size() > complete + 1) {
            JUDGE("C10.window_count",
                        "acquisition %d stream %d: storage received %zu "
                        "averaged frames but only %zu inputs were delivered",
                        a.id, s, F.size(), G.size());
        }
        for (size_t i = 0; i < F.size() && i < complete; ++i) {
            const struct VideoFrame* f = F[i];
            char where[96];
            snprintf(where, sizeof(where),
                     "acquisition %d stream %d stored frame %zu", a.id, s, i);
            if (f->shape.type != SampleType_f32 ||
                !same_dims(f->shape, G[i * (size_t)k].shape))
                JUDGE("C10.wrong_shape",
                            "%s: averaged frame is not f32 with the input's "
                            "dimensions",
                            where);
            if (f->frame_id != (uint64_t)i * (uint64_t)k)
                JUDGE("C10.wrong_frame_id",
                            "%s: frame id %llu, expected %llu (id of the "
                            "window's first frame)",
                            where, (unsigned long long)f->frame_id,
                            (unsigned long long)(i * (size_t)k));
            if (check_mean_frame(f, camdev_index(c.camdev), a.id, G,
                                 i * (size_t)k, k, where, "C10"))
                return;
        }
        return;
    }
    // ---- plain: storage == camera, frame for frame
    if (F.size() > G.size()) {
        snprintf(id, sizeof(id), "%s.more_stored_than_delivered", P);
        JUDGE(id,
                    "acquisition %d stream %d: storage received %zu frames "
                    "but the camera delivered only %zu",
                    a.id, s, F.size(), G.size());
    }
    for (size_t i = 0; i < F.size(); ++i) {
        const struct VideoFrame* f = F[i];
        const FrameRec& g = G[i];
        if (f->frame_id != i)
            JUDGE("C04.frame_id_sequence",
                        "acquisition %d stream %d: %zu-th stored frame has "
                        "frame_id %llu (gap, repeat or reordering)",
                        a.id, s, i, (unsigned long long)f->frame_id);
        if (f->hardware_frame_id != g.hw || f->timestamps.hardware != g.ts)
            JUDGE("C04.wrong_frame",
                        "acquisition %d stream %d: stored frame %zu carries "
                        "hardware id %llu / timestamp %llx but the camera's "
                        "%zu-th delivered frame was id %llu / %llx (lost, "
                        "duplicated, reordered or from another "
                        "stream/acquisition)",
                        a.id, s, i, (unsigned long long)f->hardware_frame_id,
                        (unsigned long long)f->timestamps.hardware, i,
                        (unsigned long long)g.hw, (unsigned long long)g.ts);
        if (!same_dims(f->shape, g.shape) || f->shape.type != g.shape.type)
            SOFT("C05.shape_differs_from_camera",
                        "acquisition %d stream %d: stored frame %zu has a "
                        "shape different from the one the camera reported for "
                        "it",
                        a.id, s, i);
        std::vector<uint8_t> want(g.nbytes);
        fill_pixels(want.data(), want.size(), g.camdev, g.acq, g.hw);
        if (memcmp(f->data, want.data(), want.size()) != 0)
            JUDGE("C04.pixels_altered",
                        "acquisition %d stream %d: pixel bytes of stored frame "
                        "%zu (hardware id %llu) differ from what the camera "
                        "delivered",
                        a.id, s, i, (unsigned long long)g.hw);
    }
    if (clean) {
        if (G.size() != c.n)
            JUDGE("C04.camera_frame_count",
                        "acquisition %d stream %d: camera delivered %zu frames "
                        "for max_frame_count=%llu",
                        a.id, s, G.size(), (unsigned long long)c.n);
        if (F.size() != c.n)
            JUDGE("C04.frames_missing_at_storage",
                        "acquisition %d stream %d: storage received %zu of the "
                        "%llu frames the camera delivered before "
                        "acquire_stop returned (ring %s)",
                        a.id, s, F.size(), (unsigned long long)c.n,
                        "small");
    }
    // C09: a camera fault at call k means nothing with index >= k is stored
    if (c.cs.fail_frame >= 0 && (int64_t)F.size() > c.cs.fail_frame)
        SOFT("C09.frames_after_camera_failure",
                    "acquisition %d stream %d: %zu frames stored although the "
                    "camera failed at frame call %lld",
                    a.id, s, F.size(), (long long)c.cs.fail_frame);
}

static void
judge_after_end(AcqRec& a, const char* how)
{
    if (a.judged)
        return;
    a.judged = true;
    // ---- C07 (and, after a device fault, C09): everything wound down
    const bool under_c09 = active_property() == "C09";
    auto id_of = [&](const char* name) {
        static std::string buf;
        buf = std::string(under_c09 ? "C09." : "C07.") + name;
        return buf.c_str();
    };
    int live = live_created_threads();
    if (live != 0 && !W->real_devices)
        (void)soft_fail(id_of("workers_alive_after_return"),
                    "acquire_%s returned but %d runtime threads are still "
                    "alive: %s",
                    how, live, live_created_thread_names().c_str());
    for (int s = 0; s < 2; ++s) {
        const StreamCfg& c = a.cfg[s];
        if (!c.valid)
            continue;
        if (c.camdev >= 0 && W->cam[camdev_index(c.camdev)].running)
            (void)soft_fail(id_of("camera_not_stopped"),
                        "acquire_%s returned but camera #%d of stream %d is "
                        "still running (no driver stop after the last start)",
                        how, c.camdev, s);
        if (c.stodev >= 0 && W->sto[stodev_index(c.stodev)].running)
            (void)soft_fail(id_of("storage_not_stopped"),
                        "acquire_%s returned but storage #%d of stream %d is "
                        "still running (no driver stop after the last start)",
                        how, c.stodev, s);
    }
    if (a.start_ok) {
        enum DeviceState st = acquire_get_state(W->rt);
        if (st != DeviceState_Armed)
            (void)soft_fail(id_of("state_not_armed"),
                        "after acquire_%s returned acquire_get_state reports "
                        "%d, not Armed",
                        how, (int)st);
    }
    for (int s = 0; s < 2; ++s)
        judge_stream(a, s);
    judge_deselected(a);
}

// ------------------------------------------------------------- monitor
static void
monitor_thread(int s, Op op, bool drainer = false)
{
    World* w = W;
    int64_t poll = op.i("poll", 200);
    int64_t hold = op.i("hold", 0);
    std::string k = op.s("k", "all");
    int64_t maxmaps = op.i("maxmaps", 1000000);
    MonObs& mo = w->mon[s];
    for (int64_t it = 0; it < maxmaps && !w->shut &&
                         (drainer ? !w->drain_stop : !w->mon_stop[s]);
         ++it) {
        if (drainer && w->mon_tid[s] >= 0 && !finished(w->mon_tid[s])) {
            // the generated client is still polling: stay out of its way
            sleep_ns(2000000);
            continue;
        }
        struct VideoFrame *beg = 0, *end = 0;
        uint64_t invoked = ++w->seq;
        if (!mo.first_map_seq)
            mo.first_map_seq = invoked;
        // A stop/abort whose execution overlaps one of this client's map or
        // unmap CALLS manipulates the same unsynchronised reader concurrently
        // (known finding).  A stop that runs entirely while the client merely
        // HOLDS a region is deterministic and is judged normally.
        auto taint = [&](uint64_t call_begin) {
            uint64_t nowseq = ++w->seq;
            for (auto& a : w->acqs)
                if (a.end_invoked_seq && a.end_invoked_seq < nowseq &&
                    (a.end_returned_seq == 0 ||
                     a.end_returned_seq > call_begin) &&
                    !mo.is_raced(a.id)) {
                    mo.raced.push_back(a.id);
                    probe("reach.stop_overlaps_client_call");
                }
        };
        enum AcquireStatusCode rc = acquire_map_read(w->rt, (uint32_t)s, &beg, &end);
        if (rc != AcquireStatus_Ok) {
            // did a stop/abort overlap this call?
            bool overlap = false;
            uint64_t nowseq = ++w->seq;
            for (auto& a : w->acqs)
                if (a.end_invoked_seq && a.end_invoked_seq < nowseq &&
                    (a.end_returned_seq == 0 || a.end_returned_seq > invoked))
                    overlap = true;
            if (overlap)
                oracle_fail("C06.map_read_fails_during_stop",
                            "acquire_map_read(stream %d) by a well-behaved "
                            "client failed while acquire_stop/abort was "
                            "flushing the same monitor reader on another "
                            "thread (map #%lld)",
                            s, (long long)it);
        }
        if (rc != AcquireStatus_Ok)
            oracle_fail("C06.map_read_fails",
                        "acquire_map_read(stream %d) by a well-behaved client "
                        "(map, then unmap) returned an error (map #%lld)",
                        s, (long long)it);
        taint(invoked);
        size_t nbytes = (size_t)((uint8_t*)end - (uint8_t*)beg);
        logline("MON%d map#%lld -> %zu bytes rc=%d first_id=%lld", s,
                (long long)it, nbytes, (int)rc,
                nbytes ? (long long)beg->frame_id : -1ll);
        std::vector<const struct VideoFrame*> fr;
        if (nbytes) {
            char where[64];
            snprintf(where, sizeof(where), "monitor map on stream %d", s);
            walk_packet((const uint8_t*)beg, nbytes, where,
                        [&](const struct VideoFrame* f) { fr.push_back(f); });
            probe("n.monitor_nonempty_maps");
            progress_kick();
        }
        // per-frame checks
        for (const struct VideoFrame* f : fr) {
            int acq = acq_of_ts(f->timestamps.hardware);
            const AcqRec* ar = nullptr;
            for (auto& a : w->acqs)
                if (a.id == acq)
                    ar = &a;
            if (!ar)
                oracle_fail("C06.unknown_frame",
                            "monitor stream %d: frame with timestamp %llx "
                            "belongs to no acquisition",
                            s, (unsigned long long)f->timestamps.hardware);
            // nothing from an acquisition whose stop/abort had returned
            // before this map was invoked
            if (ar->end_returned_seq && ar->end_returned_seq < invoked &&
                mo.first_map_seq > ar->end_returned_seq)
                oracle_fail("C06.stale_frame_for_late_joiner",
                            "monitor stream %d: a client whose very first map "
                            "was invoked after acquire_%s of acquisition %d "
                            "had returned is handed frame id %llu of that "
                            "acquisition",
                            s, ar->ended.c_str(), acq,
                            (unsigned long long)f->frame_id);
            if (ar->end_returned_seq && ar->end_returned_seq < invoked &&
                mo.is_raced(acq))
                oracle_fail("C06.monitor_raced_with_stop",
                            "monitor stream %d: acquire_%s of acquisition %d "
                            "ran while the client was inside map/unmap or "
                            "held a mapped region; afterwards the client is "
                            "handed frame id %llu of that acquisition",
                            s, ar->ended.c_str(), acq,
                            (unsigned long long)f->frame_id);
            if (ar->end_returned_seq && ar->end_returned_seq < invoked)
                oracle_fail("C06.stale_frame_after_stop",
                            "monitor stream %d: frame id %llu of acquisition "
                            "%d was delivered by a map invoked after "
                            "acquire_%s for that acquisition had returned",
                            s, (unsigned long long)f->frame_id, acq,
                            ar->ended.c_str());
            if (mo.last_acq != acq) {
                mo.last_acq = acq;
                mo.next_id = f->frame_id;
                if (mo.any)
                    probe("reach.monitor_spans_acquisitions");
            }
            mo.any = true;
            const StreamCfg& c = ar->cfg[s];
            uint64_t stepk = c.avg > 1 ? (uint64_t)c.avg : 1;
            if (f->frame_id != mo.next_id && mo.is_raced(acq))
                oracle_fail("C06.monitor_raced_with_stop",
                            "monitor stream %d: acquire_%s of acquisition %d "
                            "ran while the client was inside map/unmap or "
                            "held a mapped region; afterwards the frame "
                            "sequence jumps from %llu to %llu",
                            s, ar->ended.c_str(), acq,
                            (unsigned long long)mo.next_id,
                            (unsigned long long)f->frame_id);
            if (f->frame_id != mo.next_id)
                oracle_fail("C06.gap_or_repeat",
                            "monitor stream %d: expected frame id %llu next "
                            "in acquisition %d but got %llu",
                            s, (unsigned long long)mo.next_id, acq,
                            (unsigned long long)f->frame_id);
            mo.next_id = f->frame_id + stepk;
            if (c.camdev < 0)
                continue;
            if (c.avg > 1) {
                std::vector<FrameRec> G =
                  delivered_frames(camdev_index(c.camdev), acq);
                size_t first = (size_t)f->frame_id;
                if (first + (size_t)c.avg <= G.size() &&
                    f->shape.type == SampleType_f32)
                    (void)check_mean_frame(f, camdev_index(c.camdev), acq, G,
                                           first, c.avg, "monitor", "C10");
            } else {
                const FrameRec* g =
                  find_frame(camdev_index(c.camdev), acq, f->hardware_frame_id);
                if (!g)
                    oracle_fail("C06.unknown_frame",
                                "monitor stream %d: frame with hardware id "
                                "%llu was never delivered by the camera",
                                s, (unsigned long long)f->hardware_frame_id);
                if (!same_dims(f->shape, g->shape) ||
                    f->shape.type != g->shape.type)
                    oracle_fail("C05.shape_differs_from_camera",
                                "monitor stream %d: frame %llu has a shape "
                                "different from the camera's",
                                s, (unsigned long long)f->frame_id);
                std::vector<uint8_t> want(g->nbytes);
                fill_pixels(want.data(), want.size(), g->camdev, g->acq, g->hw);
                if (memcmp(f->data, want.data(), want.size()) != 0)
                    oracle_fail("C06.pixels_altered",
                                "monitor stream %d: pixel bytes of frame %llu "
                                "differ from what the camera delivered",
                                s, (unsigned long long)f->frame_id);
            }
        }
        std::vector<uint8_t> snapshot;
        if (nbytes && hold > 0) {
            snapshot.assign((uint8_t*)beg, (uint8_t*)end);
            probe("reach.monitor_holds_region");
            sleep_ns((uint64_t)hold * 1000);
            // (a client that reads the packet at the end of the hold still
            // finds whole, exactly chained frames; judged first under C05,
            // last otherwise, so that neither property's oracle ends the run
            // before the other's has looked)
            auto rewalk = [&] {
                char where2[80];
                snprintf(where2, sizeof(where2),
                         "monitor map on stream %d, re-read after the hold", s);
                walk_packet((const uint8_t*)beg, nbytes, where2,
                            [&](const struct VideoFrame*) {});
            };
            const bool c05_first = active_property() == "C05";
            if (c05_first)
                rewalk();
            // zero-copy consumers never see a frame change under them
            bool ended_meanwhile = false;
            for (auto& a : w->acqs)
                if (a.end_returned_seq > invoked)
                    ended_meanwhile = true;
            if (memcmp(snapshot.data(), beg, nbytes) != 0 && ended_meanwhile)
                oracle_fail("C06.held_region_released_by_stop",
                            "monitor stream %d: the client held a mapped "
                            "region while acquire_stop/abort ran; the region "
                            "was released behind its back and a later "
                            "acquisition overwrote it while still mapped",
                            s);
            if (memcmp(snapshot.data(), beg, nbytes) != 0)
                oracle_fail("C06.region_changed_while_mapped",
                            "monitor stream %d: the mapped region changed "
                            "while the client held it",
                            s);
            if (!c05_first)
                rewalk();
        }
        size_t consumed = nbytes;
        // a client that never releases anything stalls any ring for ever;
        // "none" therefore means: hold back for a few polls, then consume
        if (k == "none" && it < 6)
            consumed = 0;
        else if (k == "one" && !fr.empty())
            consumed = fr[0]->bytes_of_frame;
        else if (k == "half" && !fr.empty()) {
            consumed = 0;
            for (size_t i = 0; i < (fr.size() + 1) / 2; ++i)
                consumed += fr[i]->bytes_of_frame;
        }
        if (consumed < nbytes) {
            probe("reach.monitor_partial_consume");
            // unconsumed frames will be seen again
            size_t nf = 0, acc = 0;
            while (nf < fr.size() && acc < consumed)
                acc += fr[nf++]->bytes_of_frame;
            if (nf < fr.size())
                mo.next_id = fr[nf]->frame_id;
        }
        logline("MON%d unmap consumed=%zu of %zu", s, consumed, nbytes);
        uint64_t unmap_begin = ++w->seq;
        rc = acquire_unmap_read(w->rt, (uint32_t)s, consumed);
        taint(unmap_begin);
        if (rc != AcquireStatus_Ok)
            oracle_fail("C06.unmap_read_fails",
                        "acquire_unmap_read(stream %d) returned an error", s);
        sleep_ns((uint64_t)std::max<int64_t>(1, poll) * 1000);
    }
}

// ----------------------------------------------------------------------
struct RtHarness : Harness
{
    const char* name() const override { return "rt"; }
    int batch(const std::string&) const override { return 1; }

    bool nontrivial(const std::string& property,
                    const std::map<std::string, uint64_t>& p) const override
    {
        auto g = [&](const char* k) {
            auto it = p.find(k);
            return it == p.end() ? (uint64_t)0 : it->second;
        };
        if (property == "C09")
            return g("fault.camera_frame_fails") + g("fault.storage_append_fails") +
                     g("fault.camera_start_fails") + g("fault.storage_start_fails") >
                   0;
        if (property == "C06")
            return g("n.monitor_nonempty_maps") > 0;
        if (property == "C07")
            return g("n.aborts") + g("n.stops") > 0 && g("n.frames_delivered") > 0;
        return g("n.appends") > 0 && g("n.frames_delivered") > 1;
    }

    std::vector<ShrinkKey> shrink_keys() const override
    {
        return { { "ring.sink0", 0 }, { "ring.filter0", 0 } };
    }

    // ------------------------------------------------------- generation
    struct GenCtx
    {
        Rng g;
        std::string prop, profile;
        explicit GenCtx(uint64_t s)
          : g(s)
        {
        }
    };

    static StreamCfg gen_stream(GenCtx& x, int s, bool allow_avg, bool faults)
    {
        Rng& g = x.g;
        StreamCfg c;
        c.valid = true;
        c.cam = s == 0 ? "c0" : "c1";
        c.sto = s == 0 ? "s0" : "s1";
        c.w = (int)g.range(1, 12);
        c.h = (int)g.range(1, 9);
        if (g.chance(0.1)) {
            c.w = (int)g.range(1, 40);
            c.h = (int)g.range(1, 24);
        }
        static const int types[] = { SampleType_u8,  SampleType_u16,
                                     SampleType_i8,  SampleType_i16,
                                     SampleType_f32, SampleType_u10,
                                     SampleType_u12, SampleType_u14 };
        c.type = types[g.below(8)];
        c.n = (uint64_t)g.range(1, 60);
        if (g.chance(0.25))
            c.n = (uint64_t)g.range(1, 6);
        if (g.chance(0.03))
            c.n = 0; // an acquisition of no frames at all
        static const int64_t delays[] = { 0, 0, 0, 200, 2000, 10000 };
        c.delay_us = delays[g.below(6)];
        static const int64_t exps[] = { 0, 0, 20, 200, 2000, 5000 };
        c.cs.exposure_us = exps[g.below(6)];
        static const int64_t slows[] = { 0, 0, 0, 50, 500, 5000 };
        c.ss.slow_us = slows[g.below(6)];
        if (g.chance(0.12))
            c.cs.gap_at = g.range(0, (int64_t)c.n);
        if (g.chance(0.08))
            c.cs.zero_at = g.range(0, (int64_t)c.n);
        if (!allow_avg && g.chance(0.1))
            c.avg = 1; // a window of one frame is "no averaging"
        if (allow_avg) {
            c.avg = (int)g.range(2, 8);
            while (c.type == SampleType_f32)
                c.type = types[g.below(8)];
            c.n = (uint64_t)g.range(1, 5 * c.avg);
            if (g.chance(0.04)) {
                // a window far longer than the acquisition (and wider than
                // 16 bits): no complete window, at most the trailing frame
                c.avg = 65536 + (int)g.range(0, 4);
                c.n = (uint64_t)g.range(1, 20);
            }
        }
        if (c.avg <= 1 && g.chance(0.1))
            // a camera that reports interleaved colour pixels
            c.cs.channels = g.chance(0.5) ? 3 : 4;
        if (g.chance(0.12)) {
            // hardware frame ids that do not start at 0: around 2^32, or large
            static const int64_t bases[] = { (1ll << 32) - 3, 1ll << 32,
                                             (1ll << 32) + 12345,
                                             (1ll << 39) - 1000, 1000000007ll };
            c.cs.hw_base = bases[g.below(5)];
        }
        if (faults) {
            int k = (int)g.below(10);
            if (k < 4)
                c.cs.fail_frame = g.range(0, (int64_t)c.n);
            else if (k < 8)
                c.ss.fail_append = g.range(0, (int64_t)c.n);
            else if (k == 8)
                c.cs.fail_start = 1;
            else
                c.ss.fail_start = 1;
        }
        return c;
    }

    static std::string cfg_line(int s, const StreamCfg& c)
    {
        char b[512];
        snprintf(b, sizeof(b),
                 "cfg s=%d cam=%s sto=%s n=%lld w=%d h=%d t=%d avg=%d delay=%lld "
                 "exp=%lld trig=%d gapat=%lld zeroat=%lld failframe=%lld "
                 "failappend=%lld slow=%lld failcamstart=%d failstostart=%d "
                 "failset=%d failcamstop=%d hwbase=%lld ch=%d",
                 s, c.cam.c_str(), c.sto.c_str(),
                 c.n == INF_FRAMES ? -1ll : (long long)c.n, c.w, c.h, c.type,
                 c.avg, (long long)c.delay_us, (long long)c.cs.exposure_us,
                 c.trig, (long long)c.cs.gap_at, (long long)c.cs.zero_at,
                 (long long)c.cs.fail_frame, (long long)c.ss.fail_append,
                 (long long)c.ss.slow_us, c.cs.fail_start, c.ss.fail_start,
                 c.cs.fail_set, c.cs.fail_stop, (long long)c.cs.hw_base,
                 c.cs.channels);
        return b;
    }

    static size_t frame_bytes(const StreamCfg& c, bool averaged)
    {
        size_t bpp = averaged ? 4 : bytes_per_px(c.type);
        size_t ch = averaged ? 1 : (size_t)std::max(1, c.cs.channels);
        return sizeof(struct VideoFrame) + align8(ch * c.w * c.h * bpp);
    }

    static std::string mon_line(Rng& g, int s)
    {
        static const char* ks[] = { "all", "all", "one", "half", "none" };
        static const int64_t polls[] = { 200, 1000, 5000, 20000, 100000 };
        static const int64_t holds[] = { 0, 0, 100, 5000, 30000 };
        char b[160];
        snprintf(b, sizeof(b), "mon s=%d on=1 poll=%lld k=%s hold=%lld maxmaps=%lld",
                 s, (long long)polls[g.below(5)], ks[g.below(5)],
                 (long long)holds[g.below(5)],
                 g.chance(0.2) ? (long long)g.range(1, 20) : 1000000ll);
        return b;
    }

    // Fault enumeration (C09): consecutive run indices of the fault profile
    // form groups of 36 that share ONE generated configuration (streams,
    // shapes, frame count <= 16, ring capacities, pacing); within a group the
    // failing ordinal sweeps every frame call of the camera (0..N) and every
    // append call of the storage device (0..N) - each under its own seeded
    // schedule - and the remaining slots draw faults at random (incl. start
    // failures).
    int64_t enum_slot_ = -1;
    uint64_t enum_cfg_seed_ = 0;

    Plan generate_run(uint64_t pbase, uint64_t idx, const std::string& property,
                      const std::string& profile) override
    {
        if (profile != "fault")
            return generate(mix64(pbase, idx), property, profile);
        const uint64_t G = 36;
        enum_cfg_seed_ = mix64(pbase, (idx / G) * 2654435761ull + 17);
        enum_slot_ = (int64_t)(idx % G);
        Plan p = generate(mix64(pbase, idx), property, profile);
        p.seti("enum.group", (int64_t)(idx / G));
        p.seti("enum.slot", enum_slot_);
        enum_slot_ = -1;
        return p;
    }

    Plan generate(uint64_t seed, const std::string& property,
                  const std::string& profile) override
    {
        Plan p;
        p.harness = "rt";
        p.property = property;
        p.profile = profile;
        p.seed = seed;
        GenCtx x(mix64(enum_slot_ >= 0 ? enum_cfg_seed_ : seed, 0x77a1));
        x.prop = property;
        x.profile = profile;
        Rng& g = x.g;
        const bool avg_prof = profile == "avg";
        const bool fault_prof = profile == "fault";
        const bool abort_prof = profile == "abort";
        const bool mon_prof = profile == "monitor";
        const bool prog_prof = profile == "program";
        int nstreams = g.chance(prog_prof ? 0.5 : 0.3) ? 2 : 1;
        int nacq = (int)g.range(1, 3);
        if (abort_prof || mon_prof || fault_prof)
            nacq = (int)g.range(2, 3);
        size_t maxframe = 0, maxout = 0;
        std::vector<std::string> ops;
        bool mon_on[2] = { false, false };
        bool configure_after_fail = false;
        for (int a = 0; a < nacq; ++a) {
            bool last = a == nacq - 1;
            // the last acquisition of fault/abort runs is clean so that
            // "a later acquisition is complete and correct" is judged
            bool faults = fault_prof && !last;
            StreamCfg sc[2];
            // a monitoring client that maps a few times without consuming and
            // walks away: the ring fills, the writer sleeps, only abort can
            // end the acquisition
            const bool fullring = abort_prof && !last && g.chance(0.2);
            for (int s = 0; s < nstreams; ++s) {
                sc[s] = gen_stream(x, s,
                                   (avg_prof && g.chance(0.9)) ||
                                     ((abort_prof || fault_prof) &&
                                      g.chance(0.25)),
                                   faults && (s == 0 || g.chance(0.5)));
                if ((abort_prof || prog_prof) && !last && g.chance(0.25))
                    sc[s].trig = 1;
                if (enum_slot_ >= 0 && a == 0 && s == 0 && faults) {
                    StreamCfg& c = sc[0];
                    if (c.n > 16)
                        c.n = 1 + c.n % 16;
                    uint64_t span = c.n + 1;
                    if ((uint64_t)enum_slot_ < 2 * span) {
                        c.cs.fail_frame = c.ss.fail_append = -1;
                        c.cs.fail_start = c.ss.fail_start = 0;
                        if ((uint64_t)enum_slot_ < span)
                            c.cs.fail_frame = enum_slot_;
                        else
                            c.ss.fail_append = enum_slot_ - (int64_t)span;
                    }
                }
                // a device that refuses to start (C07/C08: the runtime must
                // stay stoppable and reusable)
                if ((abort_prof || prog_prof || avg_prof) && !last &&
                    g.chance(0.08)) {
                    if (g.chance(0.5))
                        sc[s].cs.fail_start = 1;
                    else
                        sc[s].ss.fail_start = 1;
                }
                if (abort_prof && !last && g.chance(0.2))
                    sc[s].n = INF_FRAMES;
                if (fullring && s == 0) {
                    sc[s].n = INF_FRAMES;
                    sc[s].trig = 0;
                    sc[s].cs.fail_start = sc[s].ss.fail_start = 0;
                }
                // device switches between acquisitions (one stream only: a
                // device cannot be opened by both streams at once)
                if (prog_prof && s == 0 && g.chance(0.25))
                    sc[s].cam = "cB";
                if (prog_prof && s == 0 && g.chance(0.25))
                    sc[s].sto = "sB";
                // a stream that was configured earlier is de-selected (its
                // devices stay open until shutdown), or its camera refuses the
                // new settings
                if ((prog_prof || abort_prof) && a > 0 && s == 1 &&
                    g.chance(0.3)) {
                    sc[s].cam = "none";
                    sc[s].sto = "none";
                }
                if (prog_prof && a > 0 && g.chance(0.1))
                    sc[s].cs.fail_set = 1;
                // a camera whose stop() stops it but reports an error
                if ((prog_prof || abort_prof) && !last && g.chance(0.05))
                    sc[s].cs.fail_stop = 1;
                maxframe = std::max(maxframe, frame_bytes(sc[s], false));
                maxout = std::max(maxout, frame_bytes(sc[s], sc[s].avg > 1));
                ops.push_back(cfg_line(s, sc[s]));
            }
            ops.push_back(configure_after_fail ? "configure afterfail=1"
                                               : "configure");
            configure_after_fail = false;
            if (fullring) {
                if (mon_on[0])
                    ops.push_back("mon s=0 on=0");
                static const int64_t polls[] = { 200, 1000, 5000, 20000 };
                char b[160];
                snprintf(b, sizeof(b),
                         "mon s=0 on=1 poll=%lld k=none hold=%lld maxmaps=%lld",
                         (long long)polls[g.below(4)],
                         (long long)(g.chance(0.5) ? 0 : 100),
                         (long long)g.range(1, 6));
                ops.push_back(b);
                mon_on[0] = true;
            }
            for (int s = 0; s < nstreams; ++s) {
                bool want = mon_prof ? g.chance(0.9) : g.chance(0.3);
                if (want && !mon_on[s] && (a > 0 || g.chance(0.8))) {
                    ops.push_back(mon_line(g, s));
                    mon_on[s] = true;
                }
            }
            ops.push_back("start");
            {
                // acquire_start is scripted to fail: the client sees the error
                // (perhaps tries once more) and configures something else
                // straight away, without stop or abort
                bool start_fails = false;
                for (int s = 0; s < nstreams; ++s)
                    start_fails |= sc[s].cs.fail_start || sc[s].ss.fail_start;
                if (prog_prof && start_fails && !last && g.chance(0.5)) {
                    if (g.chance(0.5))
                        ops.push_back("start");
                    configure_after_fail = true;
                    continue;
                }
            }
            bool ends_by_itself = true;
            for (int s = 0; s < nstreams; ++s)
                ends_by_itself &= sc[s].n != INF_FRAMES && !sc[s].trig;
            if (ends_by_itself &&
                (fault_prof || (prog_prof && g.chance(0.3)) ||
                 (!abort_prof && g.chance(0.1)) ||
                 (abort_prof && g.chance(0.25))))
                ops.push_back("await_idle max=2000000");
            if (prog_prof && g.chance(0.15))
                ops.push_back("start"); // start while running
            if ((prog_prof && g.chance(0.3)) ||
                (!abort_prof && !fault_prof && !mon_prof && g.chance(0.1))) {
                // restart without stop once the runtime says it is done
                bool finite = true;
                for (int s = 0; s < nstreams; ++s)
                    finite &= sc[s].n != INF_FRAMES && !sc[s].trig;
                if (finite) {
                    ops.push_back("await_armed max=3000000");
                    ops.push_back("start");
                }
            }
            int extra = (int)g.below(3);
            for (int e = 0; e < extra; ++e) {
                int k = (int)g.below(5);
                char b[96];
                if (k == 0)
                    ops.push_back("state");
                else if (k == 1 && g.chance(0.5)) {
                    // the remaining read-only calls of the public API
                    snprintf(b, sizeof(b), "%s s=%d",
                             g.chance(0.5) ? "shape" : "waiting",
                             (int)g.below(2));
                    ops.push_back(b);
                } else if (k == 1)
                    ops.push_back("getcfg");
                else if (k == 2) {
                    snprintf(b, sizeof(b), "trig s=%d n=%d gap=%d",
                             (int)g.below((uint64_t)nstreams), (int)g.range(1, 5),
                             (int)g.range(0, 2000));
                    ops.push_back(b);
                } else {
                    static const int64_t sl[] = { 1, 100, 3000, 20000, 100000 };
                    snprintf(b, sizeof(b), "sleep us=%lld",
                             (long long)sl[g.below(5)]);
                    ops.push_back(b);
                }
            }
            // The client knows from the frames it has counted that the
            // finite acquisition is over and goes on to the next one without
            // stop and without asking for the state.
            {
                bool finite = !last && !fullring && !faults;
                for (int s = 0; s < nstreams; ++s)
                    finite &= sc[s].n != INF_FRAMES && !sc[s].trig &&
                              !sc[s].faulty();
                if (finite && (avg_prof || prog_prof) && g.chance(0.15)) {
                    ops.push_back("await_quiet max=3000000");
                    continue;
                }
            }
            // how it ends
            bool use_abort =
              (abort_prof && !last) ? g.chance(0.85)
                                    : ((mon_prof || prog_prof || fault_prof) && !last
                                         ? g.chance(0.4)
                                         : false);
            use_abort |= fullring;
            // the client looks at a few frames, then gives up at once
            if (fullring && g.chance(0.7))
                ops.push_back("mon_wait s=0");
            if (use_abort) {
                if (g.chance(0.4)) {
                    char b[64];
                    static const int64_t at[] = { 0, 50, 1000, 20000, 200000 };
                    snprintf(b, sizeof(b), "abort_async at=%lld",
                             (long long)at[g.below(5)]);
                    ops.push_back(b);
                    ops.push_back("stop"); // joins; abort lands meanwhile
                } else {
                    ops.push_back("abort");
                    if (g.chance(0.15))
                        ops.push_back("abort");
                }
            } else {
                ops.push_back("stop");
            }
            if (prog_prof && g.chance(0.3))
                ops.push_back("state");
            for (int s = 0; s < nstreams; ++s)
                if (mon_on[s] && g.chance(0.25)) {
                    char b[32];
                    snprintf(b, sizeof(b), "mon s=%d on=0", s);
                    ops.push_back(b);
                    mon_on[s] = false;
                }
        }
        p.ops = ops;
        // ring capacities: 2.2 .. 40 frames, biased small
        auto ring = [&](size_t fb) -> int64_t {
            double f;
            int k = (int)g.below(10);
            if (k < 5)
                f = 2.2 + (double)g.below(180) / 100.0; // 2.2 .. 4
            else if (k < 8)
                f = 4 + (double)g.below(600) / 100.0; // 4 .. 10
            else
                f = 10 + (double)g.below(3000) / 100.0;
            size_t c = (size_t)((double)fb * f) + (size_t)g.below(8);
            return (int64_t)std::max<size_t>(c, fb * 2 + 16);
        };
        size_t sinkf = std::max(maxframe, maxout);
        p.seti("ring.sink0", ring(sinkf));
        p.seti("ring.filter0", ring(maxframe));
        p.seti("ring.sink1", ring(sinkf));
        p.seti("ring.filter1", ring(maxframe));
        p.seti("minring", (int64_t)(std::max(maxframe, maxout) * 2 + 16));
        Rng sg(mix64(seed, 0x5c));
        draw_sched(p, sg, 4000, true, true);
        // the sink busy-waits while frames are younger than the write delay
        // and the clock advances one quantum per step: keep quanta coarse
        // enough that such waits cost thousands, not millions, of steps
        static const int64_t qs[] = { 1000, 10000, 100000 };
        p.seti("sched.quantum_ns", qs[sg.below(3)]);
        if (fault_prof && !p.cfg.count("sched.p_stall") && sg.chance(0.5)) {
            // fault runs are short: a thread held at an arbitrary point while
            // the others run through an error path is what they are about
            static const double st[] = { 0.002, 0.01, 0.03 };
            p.setd("sched.p_stall", st[sg.below(3)]);
            if (!p.cfg.count("sched.max_stall_ns"))
                p.seti("sched.max_stall_ns", 5000000);
        }
        if (p.geti("sched.max_stall_ns", 0) > 5000000 &&
            p.geti("sched.quantum_ns", 0) < 10000)
            p.seti("sched.max_stall_ns", 5000000);
        if (sg.chance(0.35)) {
            static const double dp[] = { 0.01, 0.05, 0.2 };
            static const int64_t dm[] = { 200, 5000, 40000 };
            p.setd("devlat_p", dp[sg.below(3)]);
            p.seti("devlat_max_us", dm[sg.below(3)]);
        }
        return p;
    }

    // -------------------------------------------------------- execution
    static StreamCfg parse_cfg(const Op& op)
    {
        StreamCfg c;
        c.valid = true;
        c.cam = op.s("cam", "c0");
        c.sto = op.s("sto", "s0");
        auto camdev = [](const std::string& s) {
            return s == "c0" ? DEV_CAM0
                             : s == "c1" ? DEV_CAM1 : s == "cB" ? DEV_CAMB : -1;
        };
        auto stodev = [](const std::string& s) {
            return s == "s0" ? DEV_STO0
                             : s == "s1" ? DEV_STO1 : s == "sB" ? DEV_STOB : -1;
        };
        c.camdev = camdev(c.cam);
        c.stodev = stodev(c.sto);
        int64_t n = op.i("n", 1);
        c.n = n < 0 ? INF_FRAMES : (uint64_t)n;
        c.w = (int)std::max<int64_t>(1, std::min<int64_t>(64, op.i("w", 4)));
        c.h = (int)std::max<int64_t>(1, std::min<int64_t>(64, op.i("h", 4)));
        c.type = (int)op.i("t", 0);
        if (c.type < 0 || c.type >= SampleTypeCount)
            c.type = 0;
        c.avg = (int)op.i("avg", 0);
        c.delay_us = op.i("delay", 0);
        c.trig = (int)op.i("trig", 0);
        c.cs.exposure_us = op.i("exp", 0);
        c.cs.gap_at = op.i("gapat", -1);
        c.cs.zero_at = op.i("zeroat", -1);
        c.cs.fail_frame = op.i("failframe", -1);
        c.cs.fail_start = (int)op.i("failcamstart", 0);
        c.cs.fail_set = (int)op.i("failset", 0);
        c.cs.fail_stop = (int)op.i("failcamstop", 0);
        c.cs.hw_base = op.i("hwbase", 0);
        c.cs.channels = (int)std::max<int64_t>(1, std::min<int64_t>(4, op.i("ch", 1)));
        if (c.avg > 1)
            c.cs.channels = 1;
        c.ss.fail_append = op.i("failappend", -1);
        c.ss.slow_us = op.i("slow", 0);
        c.ss.fail_start = (int)op.i("failstostart", 0);
        return c;
    }

    static bool select_dev(const char* name, enum DeviceKind kind,
                           struct DeviceIdentifier* out)
    {
        return device_manager_select(W->dm, kind, name, strlen(name), out) ==
               Device_Ok;
    }

    static const char* dev_name(const std::string& key)
    {
        if (key == "c0")
            return "mock cam 0";
        if (key == "c1")
            return "mock cam 1";
        if (key == "cB")
            return "mock cam B";
        if (key == "s0")
            return "mock store 0";
        if (key == "s1")
            return "mock store 1";
        if (key == "sB")
            return "mock store B";
        if (key == "rempty")
            return "simulated: empty";
        if (key == "rrandom")
            return "simulated: uniform random";
        if (key == "trash")
            return "trash";
        return "";
    }

    static void do_configure()
    {
        World* w = W;
        struct AcquireProperties props;
        memset(&props, 0, sizeof(props));
        acquire_get_configuration(w->rt, &props);
        // get_configuration hands out shallow copies of device-owned strings;
        // the client owns what it puts in
        for (int s = 0; s < 2; ++s) {
            memset(&props.video[s].storage.settings, 0,
                   sizeof(props.video[s].storage.settings));
            memset(&props.video[s].camera.identifier, 0,
                   sizeof(struct DeviceIdentifier));
            memset(&props.video[s].storage.identifier, 0,
                   sizeof(struct DeviceIdentifier));
        }
        for (int s = 0; s < 2; ++s) {
            StreamCfg& c = w->pending[s];
            if (!c.valid)
                continue;
            auto& v = props.video[s];
            if (c.cam != "none")
                select_dev(dev_name(c.cam), DeviceKind_Camera,
                           &v.camera.identifier);
            if (c.sto != "none")
                select_dev(dev_name(c.sto), DeviceKind_Storage,
                           &v.storage.identifier);
            memset(&v.camera.settings, 0, sizeof(v.camera.settings));
            v.camera.settings.binning = 1;
            v.camera.settings.pixel_type = (enum SampleType)c.type;
            v.camera.settings.shape.x = (uint32_t)c.w;
            v.camera.settings.shape.y = (uint32_t)c.h;
            v.camera.settings.exposure_time_us = (float)c.cs.exposure_us;
            v.camera.settings.input_triggers.frame_start.enable =
              (uint8_t)c.trig;
            v.max_frame_count = c.n;
            v.frame_average_count = (uint32_t)c.avg;
            v.storage.write_delay_ms = (float)c.delay_us / 1000.0f;
            struct PixelScale px = { 1, 1 };
            storage_properties_init(&v.storage.settings, 0, "out", 4, 0, 0, px,
                                    0);
            // device scripts take effect now
            if (c.camdev >= 0)
                w->cam[camdev_index(c.camdev)].script = c.cs;
            if (c.stodev >= 0)
                w->sto[stodev_index(c.stodev)].script = c.ss;
        }
        enum AcquireStatusCode rc = acquire_configure(w->rt, &props);
        (void)rc;
        w->applied[0] = w->pending[0];
        w->applied[1] = w->pending[1];
        for (int s = 0; s < 2; ++s) {
            if (w->pending[s].valid && w->pending[s].camdev >= 0)
                w->last_camdev[s] = w->pending[s].camdev;
            if (w->pending[s].valid && w->pending[s].stodev >= 0)
                w->last_stodev[s] = w->pending[s].stodev;
        }
        for (int s = 0; s < 2; ++s)
            if (w->pending[s].valid)
                storage_properties_destroy(&props.video[s].storage.settings);
        probe("n.configures");
    }

    static AcqRec* current_acq()
    {
        return W->acqs.empty() ? nullptr : &W->acqs.back();
    }

    static void ensure_triggers_flow()
    {
        // acquire_stop waits for all frames: a camera that waits for software
        // triggers needs someone to send them, otherwise blocking forever is
        // the documented behaviour and no defect
        World* w = W;
        AcqRec* a = current_acq();
        if (!a)
            return;
        bool need = false;
        for (int s = 0; s < 2; ++s)
            need |= a->cfg[s].valid && a->cfg[s].trig;
        if (!need)
            return;
        w->autotrig_stop = false;
        int t = spawn("autotrigger", [w] {
            while (!w->autotrig_stop && !w->shut) {
                for (uint32_t s = 0; s < 2; ++s)
                    acquire_execute_trigger(w->rt, s);
                sleep_ns(200000);
            }
        });
        w->helper_tids.push_back(t);
    }

    static void end_acquisition(const char* how, bool async_abort_pending)
    {
        World* w = W;
        (void)async_abort_pending;
        AcqRec* a = current_acq();
        bool is_abort = strcmp(how, "abort") == 0;
        if (a && !a->judged && a->ended.empty()) {
            // an infinite acquisition can only be ended by abort
            bool inf = false;
            for (int s = 0; s < 2; ++s)
                inf |= a->cfg[s].valid && a->cfg[s].n == INF_FRAMES;
            if (!is_abort && inf && !async_abort_pending) {
                is_abort = true;
                how = "abort";
            }
        }
        if (!is_abort) {
            ensure_triggers_flow();
            // acquire_stop waits for every frame, so a registered monitor
            // reader must keep releasing what it holds: if the generated
            // client has stopped polling, a stand-in client keeps consuming
            // (a client that walks away for good is only judged with abort)
            w->drain_stop = false;
            for (int s = 0; s < 2; ++s) {
                if (w->mon_ever[s]) {
                    Op dop = parse_op("mon poll=1000 k=all hold=0");
                    std::string nm = "monitor-standin" + std::to_string(s);
                    w->drainers.push_back(spawn(
                      nm.c_str(), [s, dop] { monitor_thread(s, dop, true); }));
                    probe("reach.standin_monitor");
                }
            }
        }
        if (a && a->end_invoked_seq == 0) {
            a->end_invoked_seq = ++w->seq;
            a->ended = is_abort ? "abort" : "stop";
        }
        // "stop and abort still return" is also a clause of C09 when a
        // frame call or an append was made to fail
        bool c09 = false;
        if (a)
            for (int s = 0; s < 2; ++s)
                c09 |= a->cfg[s].valid && (a->cfg[s].cs.fail_frame >= 0 ||
                                           a->cfg[s].ss.fail_append >= 0);
        std::string pfx = c09 && active_property() == "C09" ? "C09" : "C07";
        std::string oid =
          pfx + (is_abort ? ".abort_does_not_return" : ".stop_does_not_return");
        int budget = expect_progress(
          oid.c_str(), is_abort ? "acquire_abort returns" : "acquire_stop returns",
          300000);
        logline("CLIENT %s invoked", is_abort ? "abort" : "stop");
        if (cond_waiters() > 0)
            probe(is_abort ? "reach.abort_while_writer_waits_for_space"
                           : "reach.stop_while_writer_waits_for_space");
        enum AcquireStatusCode rc =
          is_abort ? acquire_abort(w->rt) : acquire_stop(w->rt);
        logline("CLIENT %s returned", is_abort ? "abort" : "stop");
        progress_done(budget);
        (void)rc;
        w->autotrig_stop = true;
        w->drain_stop = true;
        for (int t : w->drainers)
            join(t);
        w->drainers.clear();
        // the client's helper threads are back before it calls into the
        // runtime again
        for (int t : w->helper_tids)
            join(t);
        w->helper_tids.clear();
        probe(is_abort ? "n.aborts" : "n.stops");
        if (a) {
            if (!a->end_returned_seq)
                a->end_returned_seq = ++w->seq;
            judge_after_end(*a, is_abort ? "abort" : "stop");
        }
        w->running_expected = false;
    }

    void execute(const Plan& plan) override
    {
        begin_run(sched_of(plan));
        simfs::reset(plan.seed);
        simdl::reset();
        mock::reset();
        World* w = W = new World();
        w->devlat_p = plan.getd("devlat_p", 0);
        w->devlat_max_ns = std::max<int64_t>(1, plan.geti("devlat_max_us", 0) * 1000);
        w->devrng = Rng(mix64(plan.seed, 0xde71a7));
        install_hooks();
        {
            simdl::Lib l;
            l.present = true;
            l.init = mock::driver_init(0);
            simdl::set_lib("acquire-driver-hdcam", l);
            mock::define_driver(0, { { DeviceKind_Camera, "mock cam 0" },
                                     { DeviceKind_Camera, "mock cam 1" },
                                     { DeviceKind_Camera, "mock cam B" },
                                     { DeviceKind_Storage, "mock store 0" },
                                     { DeviceKind_Storage, "mock store 1" },
                                     { DeviceKind_Storage, "mock store B" } });
        }
        int64_t minring = plan.geti("minring", 512);
        auto cap = [&](const char* k) {
            int64_t v = plan.geti(k, 0);
            return (size_t)std::max(v, minring);
        };
        w->ring_sink[0] = cap("ring.sink0");
        w->ring_filter[0] = cap("ring.filter0");
        w->ring_sink[1] = cap("ring.sink1");
        w->ring_filter[1] = cap("ring.filter1");
        simseam::set_channel_caps({ cap("ring.sink0"), cap("ring.filter0"),
                                    cap("ring.sink1"), cap("ring.filter1") });
        w->rt = acquire_init(reporter);
        if (!w->rt)
            oracle_fail("C08.init_failed", "acquire_init returned NULL");
        w->dm = acquire_device_manager(w->rt);
        std::vector<int> abort_tids;
        bool async_abort_pending = false;

        for (auto& line : plan.ops) {
            Op op = parse_op(line);
            if (op.name == "cfg") {
                int s = (int)(op.i("s") % 2);
                w->pending[s] = parse_cfg(op);
                if (w->pending[s].cam[0] == 'r' || w->pending[s].sto == "trash")
                    w->real_devices = true;
            } else if (op.name == "configure") {
                if (w->running_expected && current_acq() &&
                    !current_acq()->start_ok && !current_acq()->judged &&
                    op.i("afterfail", 0)) {
                    // acquire_start returned an error: the client knows that
                    // nothing is running and configures something else
                    AcqRec* pa = current_acq();
                    pa->ended = "stop";
                    pa->end_invoked_seq = pa->end_returned_seq = ++w->seq;
                    pa->judged = true;
                    w->running_expected = false;
                    w->autotrig_stop = true;
                    for (int t : w->helper_tids)
                        join(t);
                    w->helper_tids.clear();
                    probe("reach.configure_after_failed_start");
                }
                if (w->running_expected && !op.i("force", 0))
                    continue; // re-configuration while running is excluded
                if (w->running_expected && current_acq()) {
                    // (hand-written experiments only: no generator emits it)
                    current_acq()->disturbed = true;
                    probe("reach.configure_while_running");
                }
                do_configure();
            } else if (op.name == "await_armed") {
                // the repeat-start-without-stop pattern: poll the state until
                // the acquisition has ended by itself
                uint64_t deadline = now_ns() + (uint64_t)op.i("max", 1000000) * 1000;
                while (acquire_get_state(w->rt) == DeviceState_Running &&
                       now_ns() < deadline)
                    sleep_ns(100000);
                probe("reach.await_armed");
            } else if (op.name == "await_quiet") {
                // the acquisition is over when its worker threads are gone;
                // the client learns that by counting frames, not from the
                // runtime (no stop, no acquire_get_state)
                uint64_t deadline = now_ns() + (uint64_t)op.i("max", 1000000) * 1000;
                while (live_created_threads() > 0 && now_ns() < deadline)
                    sleep_ns(100000);
                if (w->running_expected && current_acq() &&
                    !current_acq()->judged && live_created_threads() == 0) {
                    for (int s2 = 0; s2 < 2; ++s2)
                        if (w->mon_tid[s2] >= 0 && w->mon_finite[s2]) {
                            join(w->mon_tid[s2]);
                            w->mon_tid[s2] = -1;
                        }
                    AcqRec* pa = current_acq();
                    pa->ended = "stop"; // judged like a stopped one
                    pa->end_invoked_seq = pa->end_returned_seq = ++w->seq;
                    pa->judged = true;
                    for (int s2 = 0; s2 < 2; ++s2)
                        judge_stream(*pa, s2);
                    w->running_expected = false;
                    w->autotrig_stop = true;
                    for (int t : w->helper_tids)
                        join(t);
                    w->helper_tids.clear();
                    probe("reach.quiet_restart");
                }
            } else if (op.name == "start") {
                if (w->running_expected && current_acq() &&
                    !current_acq()->judged &&
                    acquire_get_state(w->rt) != DeviceState_Running) {
                    // the previous acquisition ended by itself (finite frame
                    // count or a fault): it is complete as far as the runtime
                    // is concerned and may be restarted without stop
                    AcqRec* pa = current_acq();
                    pa->ended = "stop"; // judged like a stopped one
                    pa->end_invoked_seq = pa->end_returned_seq = ++w->seq;
                    pa->judged = true;
                    for (int s2 = 0; s2 < 2; ++s2)
                        judge_stream(*pa, s2);
                    w->running_expected = false;
                    probe("reach.restart_without_stop");
                }
                bool was_running = w->running_expected;
                if (!was_running) {
                    AcqRec a;
                    a.id = ++w->acq_id;
                    a.cfg[0] = w->applied[0];
                    a.cfg[1] = w->applied[1];
                    w->acqs.push_back(a);
                } else if (current_acq()) {
                    current_acq()->disturbed = true;
                    probe("reach.start_while_running");
                }
                enum AcquireStatusCode rc = acquire_start(w->rt);
                if (!was_running) {
                    current_acq()->start_ok = rc == AcquireStatus_Ok;
                    w->running_expected = true;
                }
                probe("n.starts");
            } else if (op.name == "stop" || op.name == "abort") {
                end_acquisition(op.name.c_str(),
                                op.name == "stop" && async_abort_pending);
                async_abort_pending = false;
                // ... and the client does not call into the runtime again
                // before its own aborting thread is back
                for (int t : abort_tids)
                    join(t);
                abort_tids.clear();
            } else if (op.name == "abort_async") {
                int64_t at = op.i("at", 0);
                AcqRec* a = current_acq();
                if (!a || !w->running_expected)
                    continue;
                async_abort_pending = true;
                int t = spawn("aborter", [w, at, a] {
                    sleep_ns((uint64_t)at * 1000);
                    // the client's threads coordinate: an abort meant for an
                    // acquisition that has already been ended is not issued
                    if (a->end_returned_seq)
                        return;
                    if (a->end_invoked_seq == 0) {
                        a->end_invoked_seq = ++w->seq;
                    }
                    a->ended = "abort";
                    int budget =
                      expect_progress("C07.abort_does_not_return",
                                      "acquire_abort (other thread) returns",
                                      300000);
                    acquire_abort(w->rt);
                    progress_done(budget);
                    probe("n.aborts");
                    probe("reach.abort_from_other_thread");
                });
                abort_tids.push_back(t);
            } else if (op.name == "trig") {
                int s = (int)(op.i("s") % 2);
                for (int64_t i = 0; i < op.i("n", 1); ++i) {
                    acquire_execute_trigger(w->rt, (uint32_t)s);
                    if (op.i("gap"))
                        sleep_ns((uint64_t)op.i("gap") * 1000);
                }
            } else if (op.name == "sleep") {
                sleep_ns((uint64_t)op.i("us", 1) * 1000);
            } else if (op.name == "await_idle") {
                // wait (bounded, virtual time) until every worker thread has
                // exited by itself, then ask for the state
                uint64_t deadline = now_ns() + (uint64_t)op.i("max", 1000000) * 1000;
                while (live_created_threads() > 0 && now_ns() < deadline)
                    sleep_ns(200000);
                if (live_created_threads() == 0 && w->running_expected &&
                    !w->real_devices) {
                    enum DeviceState st = acquire_get_state(w->rt);
                    probe("reach.state_queried_after_workers_exited");
                    if (st == DeviceState_Running)
                        oracle_fail("C09.running_after_workers_exited",
                                    "every worker thread of the acquisition "
                                    "has exited but acquire_get_state still "
                                    "reports Running");
                }
            } else if (op.name == "state") {
                int live = live_created_threads();
                enum DeviceState st = acquire_get_state(w->rt);
                if (st == DeviceState_Running && live == 0 && !w->real_devices)
                    oracle_fail("C08.running_without_workers",
                                "acquire_get_state reports Running but no "
                                "worker thread of any stream was alive when "
                                "it was called");
                probe("n.state_queries");
            } else if (op.name == "getcfg") {
                struct AcquireProperties props;
                memset(&props, 0, sizeof(props));
                acquire_get_configuration(w->rt, &props);
                struct AcquirePropertyMetadata meta;
                memset(&meta, 0, sizeof(meta));
                acquire_get_configuration_metadata(w->rt, &meta);
            } else if (op.name == "shape") {
                struct ImageShape shp;
                memset(&shp, 0, sizeof(shp));
                acquire_get_shape(w->rt, (uint32_t)(op.i("s") % 2), &shp);
                probe("n.get_shape_calls");
            } else if (op.name == "waiting") {
                acquire_bytes_waiting_to_be_written_to_disk(
                  w->rt, (uint32_t)(op.i("s") % 2));
                probe("n.bytes_waiting_calls");
            } else if (op.name == "mon_wait") {
                // the client waits until its monitoring loop has done the
                // maps it wanted (a loop without a bound is left alone)
                int s = (int)(op.i("s") % 2);
                if (w->mon_tid[s] >= 0 && w->mon_finite[s]) {
                    join(w->mon_tid[s]);
                    w->mon_tid[s] = -1;
                }
            } else if (op.name == "mon") {
                int s = (int)(op.i("s") % 2);
                if (op.i("on")) {
                    if (w->mon_tid[s] >= 0)
                        continue;
                    w->mon_stop[s] = false;
                    w->mon_finite[s] = op.i("maxmaps", 1000000) < 1000000;
                    std::string nm = "monitor" + std::to_string(s);
                    w->mon_tid[s] =
                      spawn(nm.c_str(), [s, op] { monitor_thread(s, op); });
                    w->mon_ever[s] = true;
                    probe("n.monitors");
                } else if (w->mon_tid[s] >= 0) {
                    w->mon_stop[s] = true;
                    join(w->mon_tid[s]);
                    w->mon_tid[s] = -1;
                }
            }
        }
        // ---- epilogue: end whatever runs, stop helpers, shut down
        if (w->running_expected) {
            end_acquisition("stop", async_abort_pending);
        }
        for (int t : abort_tids)
            join(t);
        for (int s = 0; s < 2; ++s)
            if (w->mon_tid[s] >= 0) {
                w->mon_stop[s] = true;
                join(w->mon_tid[s]);
            }
        w->autotrig_stop = true;
        for (int t : w->helper_tids)
            join(t);
        w->shut = true;
        int budget = expect_progress("C07.shutdown_does_not_return",
                                     "acquire_shutdown returns", 300000);
        acquire_shutdown(w->rt);
        progress_done(budget);
        // ---- C08: device life cycles over the whole program
        {
            std::string suffix;
            // (a frame call racing a stop is C11's clause, not C08's)
            std::string v =
              mock::check_protocol(true, &suffix, "frame_outside_running");
            if (!v.empty())
                oracle_fail(("C08." + suffix).c_str(), "%s", v.c_str());
            for (auto& I : mock::instances()) {
                if (I.closes != 1)
                    oracle_fail("C08.close_count",
                                "device instance %d closed %d times", I.id,
                                I.closes);
                if (I.starts != I.stops + (I.running ? 1 : 0) && false)
                    oracle_fail("C08.start_stop_mismatch", "x");
            }
            if (mock::driver_shutdowns(0) < 1)
                oracle_fail("C08.driver_not_shut_down",
                            "acquire_shutdown returned without shutting the "
                            "driver down");
        }
        hash_u64(w->seq);
        hash_u64(mock::calls().size());
        for (int d = 0; d < 3; ++d)
            hash_u64(w->delivered[d].size() * 31 + w->sto[d].packets.size());
        W = nullptr;
        delete w;
    }
};

static RtHarness g_rt;

struct Reg
{
    Reg()
    {
        register_harness(&g_rt);
        std::vector<std::string> real = {
            "acquire-video-runtime/src/acquire.c",
            "acquire-video-runtime/src/runtime/{source,filter,sink,channel,"
            "vfslice,frame_iterator,throttler}.c",
            "acquire-core-libs/src/acquire-device-hal/device/hal/{camera,"
            "storage,driver,loader}.c and device.manager.cpp",
            "acquire-core-libs/src/acquire-core-platform/linux/platform.c",
            "acquire-core-libs/src/acquire-device-properties (storage "
            "properties, components)"
        };
        std::vector<std::string> stub = {
            "camera and storage devices: world/mockdrv.cpp driven by "
            "harness/rt.cpp (keyed-hash pixels, pacing, triggers, scripted "
            "failures, recording storage)",
            "threads, locks, condition variables, clock, sleep: simulation "
            "kernel; dlopen/dlsym: dl seam; ring capacities: channel_new seam "
            "(per-run, 2.2..40 frames instead of 1 GiB)"
        };
        std::vector<std::string> assume = {
            "sequentially consistent interleavings at synchronisation-level "
            "granularity (lock/unlock, cond wait/broadcast, thread "
            "create/join/exit, sleep, every device call and every log call "
            "are preemption points)",
            "the monitoring client is well behaved (map, then unmap)",
            "re-configuration while Running is outside the checked grammar"
        };
        auto mk = [&](const char* id, const char* level, const char* tech,
                      const char* rule, std::vector<ProfileSpec> profs,
                      std::vector<std::string> reach) {
            CheckSpec c;
            c.property = id;
            c.harness = "rt";
            c.level = level;
            c.design_ref = std::string("DESIGN.md section 4, ") + id;
            c.technique = tech;
            c.rule = rule;
            c.profiles = profs;
            c.real_components = real;
            c.stub_components = stub;
            c.assumptions = assume;
            c.reach_probes = reach;
            register_check(c);
        };
        const char* rule_common =
          "a case is one generated plan: 1-3 acquisitions on 1-2 streams "
          "(shape, sample type, frame count, ring capacities, camera pacing, "
          "storage speed, write delay, monitor behaviour, how each ends) plus "
          "a scheduling configuration; distinct = distinct run fingerprint "
          "(hash of scheduling decisions, device-call and frame counts); ";
        mk("C04", "exploration",
           "deterministic simulation of the whole runtime: seeded schedules, "
           "stalls and tiny rings; storage history compared frame for frame "
           "(ids, hardware ids, shape, keyed-hash pixels) with what the mock "
           "camera delivered",
           (std::string(rule_common) +
            "non-trivial = at least two frames were delivered and at least "
            "one append reached storage")
             .c_str(),
           { { "plain", 5000, 60000, false } },
           { "n.appends", "reach.zero_size_frame", "reach.hardware_id_gap",
             "k.stalls", "n.monitors" });
        mk("C05", "exploration",
           "deterministic simulation: every packet handed to storage or "
           "mapped by the monitor is walked by an independent chain checker "
           "(alignment, size field, exact landing, camera-reported shape)",
           (std::string(rule_common) +
            "non-trivial = at least two frames were delivered and at least "
            "one append reached storage")
             .c_str(),
           { { "plain", 3000, 60000, false },
             { "monitor", 1000, 20000, false },
             { "avg", 1000, 20000, false }, // the filter is a frame producer too
             { "fault", 756, 15120, true } },
           { "n.appends", "n.monitor_nonempty_maps",
             "reach.monitor_partial_consume" });
        mk("C06", "exploration",
           "deterministic simulation with a generated monitoring client "
           "(poll period, partial consumption, long holds, late start) over "
           "sequences of acquisitions ended by stop or abort",
           (std::string(rule_common) +
            "non-trivial = the monitor mapped at least one non-empty region")
             .c_str(),
           { { "monitor", 4000, 50000, false } },
           { "n.monitor_nonempty_maps", "reach.monitor_partial_consume",
             "reach.monitor_holds_region", "reach.monitor_spans_acquisitions",
             "n.aborts" });
        mk("C07", "exploration",
           "deterministic simulation: abort/stop issued at seeded points of "
           "seeded schedules from the client or a third thread; bounded "
           "liveness (step budget), wait-for graph on deadlock, thread table "
           "and device logs checked on return, follow-up acquisition judged "
           "by C04's oracle",
           (std::string(rule_common) +
            "non-trivial = at least one stop/abort was issued after frames "
            "had been delivered")
             .c_str(),
           { { "abort", 6000, 120000, false } },
           { "n.aborts", "reach.abort_from_other_thread",
             "reach.camera_waits_for_trigger", "k.cond_waits" });
        mk("C08", "exploration",
           "deterministic simulation of random client programs over the "
           "public API; history check of the recording driver's call log",
           (std::string(rule_common) +
            "non-trivial = at least two frames were delivered and at least "
            "one append reached storage")
             .c_str(),
           { { "program", 6000, 80000, false } },
           { "reach.start_while_running", "n.state_queries", "n.aborts" });
        mk("C09", "fault_enumeration",
           "deterministic simulation with device faults attached to a frame "
           "or append ordinal (camera get_frame / start, storage append / "
           "start) under seeded schedules and ring fill levels; followed by a "
           "fault-free acquisition",
           (std::string(rule_common) +
            "non-trivial = an injected device fault actually fired")
             .c_str(),
           { { "fault", 4536, 45360, true } },
           { "fault.camera_frame_fails", "fault.storage_append_fails",
             "fault.camera_start_fails", "fault.storage_start_fails" });
        mk("C10", "exploration",
           "deterministic simulation with frame averaging on small rings "
           "(accumulators land on used memory); every stored/monitored f32 "
           "frame compared with the exact mean of its window of camera frames",
           (std::string(rule_common) +
            "non-trivial = at least two frames were delivered and at least "
            "one append reached storage")
             .c_str(),
           { { "avg", 10000, 200000, false } },
           { "n.appends", "reach.wraps" });
    }
} g_reg;

} // namespace
