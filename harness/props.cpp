// Harness `props`: real device/props/storage.c with the tracking allocator
// seam, against a plain value model.  Serves C13.  DESIGN.md section 4, C13.
#include "../sim/harness.h"
#include "../sim/seams.h"
#include "../sim/super.h"

#include <stdio.h>
#include <stdlib.h>
#include <string.h>

#include <optional>
#include <set>

extern "C"
{
#include "device/props/storage.h"
}

using namespace sim;

namespace {

typedef std::vector<uint8_t> Bytes;

struct DimM
{
    bool set = false;
    Bytes name;
    int kind = 0;
    uint32_t a = 0, c = 0, sh = 0;
};

struct ObjM
{
    bool live = false;
    Bytes uri, meta, key, secret; // stored form (NUL-terminated)
    uint32_t first = 0;
    double px = 0, py = 0;
    uint8_t ms = 0;
    std::vector<DimM> dims;
};

// A caller-side string: exact-size heap buffer so that any over-read is an
// ASan report.
struct CStr
{
    char* p = nullptr;
    size_t n = 0;
    ~CStr() { free(p); }
};

// spec: null | z0 (ptr,"" nbytes 0) | t<len>.<id> (terminated, nbytes=len+1)
//       | u<len>.<id> (len bytes, no NUL inside, nbytes=len)
static void
make_str(const std::string& spec, CStr* out)
{
    out->p = nullptr;
    out->n = 0;
    if (spec == "null" || spec.empty())
        return;
    if (spec == "z0") {
        out->p = (char*)malloc(1);
        out->p[0] = 0;
        out->n = 0;
        return;
    }
    char kind = spec[0];
    size_t len = (size_t)strtoul(spec.c_str() + 1, 0, 10);
    size_t dot = spec.find('.');
    uint64_t id = dot == std::string::npos
                    ? 0
                    : strtoull(spec.c_str() + dot + 1, 0, 10);
    size_t n = kind == 't' ? len + 1 : len;
    if (n == 0) {
        out->p = (char*)malloc(1);
        out->n = 0;
        return;
    }
    out->p = (char*)malloc(n);
    out->n = n;
    Rng r(mix64(id, len));
    for (size_t i = 0; i < len; ++i)
        out->p[i] = (char)('!' + r.below(90)); // printable, never NUL
    if (kind == 't')
        out->p[len] = 0;
}

// what copy_string stores for a source (ptr, nbytes)
static Bytes
stored_form(const char* p, size_t n)
{
    if (!p || !n)
        return Bytes{ 0 };
    Bytes b(p, p + n);
    b[n - 1] = 0;
    return b;
}

struct World
{
    struct StorageProperties obj[3];
    ObjM m[3];
};

static void
fail_obj(const char* id, int s, const char* what)
{
    oracle_fail(id, "object %d: %s", s, what);
}

static void
check_string(int s, const char* field, const struct String& str,
             const Bytes& want)
{
    char buf[256];
    if (!str.str) {
        snprintf(buf, sizeof(buf), "%s: stored pointer is NULL", field);
        fail_obj("C13.field_mismatch", s, buf);
    }
    if (str.nbytes != want.size()) {
        snprintf(buf, sizeof(buf), "%s: recorded length %zu, expected %zu",
                 field, str.nbytes, want.size());
        fail_obj("C13.field_mismatch", s, buf);
    }
    if (str.is_ref) {
        snprintf(buf, sizeof(buf), "%s: marked as a reference, not owned",
                 field);
        fail_obj("C13.shares_memory", s, buf);
    }
    if (!simseam::track_is_live(str.str) ||
        simseam::track_size(str.str) < str.nbytes) {
        snprintf(buf, sizeof(buf),
                 "%s: pointer is not a live allocation of at least nbytes "
                 "(dangling or foreign pointer)",
                 field);
        fail_obj("C13.dangling_pointer", s, buf);
    }
    if (memcmp(str.str, want.data(), want.size()) != 0) {
        snprintf(buf, sizeof(buf), "%s: contents differ from what was set",
                 field);
        fail_obj("C13.field_mismatch", s, buf);
    }
    if (str.str[str.nbytes - 1] != 0) {
        snprintf(buf, sizeof(buf), "%s: not NUL-terminated at nbytes-1", field);
        fail_obj("C13.not_terminated", s, buf);
    }
}

// ---- after a call during which an allocation was refused -----------------
// The call may have failed half way.  What the property still promises: every
// stored string is a live block of the module with its recorded length and
// terminator, nothing is leaked or released twice (check_world's reachability
// count), the source is untouched, and no field holds anything but its value
// from before the call or the value the call was storing (a dimension may
// also have been cleared: set_dimension and copy release before they store).
// The model is then taken from the object, field by field.
static bool
read_string_after_failure(int s, const char* field, const struct String& str,
                          Bytes* out)
{
    char buf[256];
    out->clear();
    if (!str.str) {
        if (str.nbytes != 0) {
            snprintf(buf, sizeof(buf),
                     "%s: after a refused allocation the stored pointer is "
                     "NULL but the recorded length is %zu",
                     field, str.nbytes);
            fail_obj("C13.invalid_after_failed_allocation", s, buf);
        }
        return true;
    }
    if (str.is_ref || !simseam::track_is_live(str.str) || str.nbytes == 0 ||
        simseam::track_size(str.str) < str.nbytes) {
        snprintf(buf, sizeof(buf),
                 "%s: after a refused allocation the stored pointer is not an "
                 "owned live block of at least the recorded %zu bytes",
                 field, str.nbytes);
        fail_obj("C13.invalid_after_failed_allocation", s, buf);
    }
    if (str.str[str.nbytes - 1] != 0) {
        snprintf(buf, sizeof(buf),
                 "%s: after a refused allocation the string is not "
                 "NUL-terminated at its recorded length",
                 field);
        fail_obj("C13.invalid_after_failed_allocation", s, buf);
    }
    out->assign((const uint8_t*)str.str,
                (const uint8_t*)str.str + str.nbytes);
    return true;
}

static void
old_or_new(int s, const char* field, const Bytes& got, const Bytes& was,
           const Bytes& storing, bool may_be_cleared)
{
    if (got == was || got == storing || (may_be_cleared && got.empty()))
        return;
    char buf[200];
    snprintf(buf, sizeof(buf),
             "%s: after a refused allocation the field holds neither its "
             "previous value nor the value being stored",
             field);
    fail_obj("C13.wrong_data_after_failed_allocation", s, buf);
}

// `was`: model before the call; `storing`: model had the call succeeded
static void
resync_after_failure(World& w, int s, const ObjM& was, const ObjM& storing)
{
    struct StorageProperties& o = w.obj[s];
    ObjM m;
    m.live = true;
    read_string_after_failure(s, "uri", o.uri, &m.uri);
    read_string_after_failure(s, "external_metadata_json",
                              o.external_metadata_json, &m.meta);
    read_string_after_failure(s, "access_key_id", o.access_key_id, &m.key);
    read_string_after_failure(s, "secret_access_key", o.secret_access_key,
                              &m.secret);
    old_or_new(s, "uri", m.uri, was.uri, storing.uri, false);
    old_or_new(s, "external_metadata_json", m.meta, was.meta, storing.meta,
               false);
    old_or_new(s, "access_key_id", m.key, was.key, storing.key, false);
    old_or_new(s, "secret_access_key", m.secret, was.secret, storing.secret,
               false);
    m.first = o.first_frame_id;
    m.px = o.pixel_scale_um.x;
    m.py = o.pixel_scale_um.y;
    m.ms = o.enable_multiscale;
    if ((m.first != was.first && m.first != storing.first) ||
        (m.px != was.px && m.px != storing.px) ||
        (m.py != was.py && m.py != storing.py) ||
        (m.ms != was.ms && m.ms != storing.ms))
        fail_obj("C13.wrong_data_after_failed_allocation", s,
                 "a scalar field holds neither its previous nor the new value");
    size_t n = o.acquisition_dimensions.size;
    const void* arr = o.acquisition_dimensions.data;
    if ((n == 0) != (arr == nullptr))
        fail_obj("C13.invalid_after_failed_allocation", s,
                 "dimension array pointer and count disagree");
    if (n && (!simseam::track_is_live(arr) ||
              simseam::track_size(arr) < n * sizeof(struct StorageDimension)))
        fail_obj("C13.invalid_after_failed_allocation", s,
                 "dimension array is not a live block of the recorded size");
    if (n != 0 && n != was.dims.size() && n != storing.dims.size())
        fail_obj("C13.wrong_data_after_failed_allocation", s,
                 "the number of dimensions is neither the previous nor the "
                 "new one");
    m.dims.resize(n);
    for (size_t i = 0; i < n; ++i) {
        const struct StorageDimension& d = o.acquisition_dimensions.data[i];
        DimM& dm = m.dims[i];
        char f[64];
        snprintf(f, sizeof(f), "dimension[%zu].name", i);
        read_string_after_failure(s, f, d.name, &dm.name);
        dm.set = !dm.name.empty();
        dm.kind = (int)d.kind;
        dm.a = d.array_size_px;
        dm.c = d.chunk_size_px;
        dm.sh = d.shard_size_chunks;
        auto same = [&](const DimM& x) {
            return x.name == dm.name && x.kind == dm.kind && x.a == dm.a &&
                   x.c == dm.c && x.sh == dm.sh;
        };
        bool ok = same(DimM()); // cleared
        if (i < was.dims.size() && n == was.dims.size() && same(was.dims[i]))
            ok = true;
        if (i < storing.dims.size() && n == storing.dims.size()) {
            if (same(storing.dims[i]))
                ok = true;
        }
        if (!ok)
            fail_obj("C13.wrong_data_after_failed_allocation", s,
                     "a dimension holds neither its previous value, the new "
                     "one, nor nothing");
    }
    w.m[s] = m;
}

static void
check_world(World& w)
{
    std::set<const void*> seen;
    auto uniq = [&](int s, const void* p, const char* what) {
        if (!p)
            return;
        if (!seen.insert(p).second) {
            char buf[160];
            snprintf(buf, sizeof(buf),
                     "%s: heap block is reachable from two places (objects "
                     "share memory)",
                     what);
            fail_obj("C13.shares_memory", s, buf);
        }
    };
    for (int s = 0; s < 3; ++s) {
        ObjM& m = w.m[s];
        if (!m.live)
            continue;
        struct StorageProperties& o = w.obj[s];
        // (absent only after an allocation failure inside init)
        if (!m.uri.empty())
            check_string(s, "uri", o.uri, m.uri);
        else if (o.uri.str)
            fail_obj("C13.field_mismatch", s, "uri set unexpectedly");
        if (!m.meta.empty())
            check_string(s, "external_metadata_json", o.external_metadata_json,
                         m.meta);
        else if (o.external_metadata_json.str)
            fail_obj("C13.field_mismatch", s,
                     "external_metadata_json set unexpectedly");
        // credentials are only materialised once set or copied
        if (!m.key.empty())
            check_string(s, "access_key_id", o.access_key_id, m.key);
        else if (o.access_key_id.str)
            fail_obj("C13.field_mismatch", s, "access_key_id set unexpectedly");
        if (!m.secret.empty())
            check_string(s, "secret_access_key", o.secret_access_key, m.secret);
        else if (o.secret_access_key.str)
            fail_obj("C13.field_mismatch", s,
                     "secret_access_key set unexpectedly");
        if (o.first_frame_id != m.first)
            fail_obj("C13.field_mismatch", s, "first_frame_id differs");
        if (o.pixel_scale_um.x != m.px || o.pixel_scale_um.y != m.py)
            fail_obj("C13.field_mismatch", s, "pixel_scale_um differs");
        if (o.enable_multiscale != m.ms)
            fail_obj("C13.field_mismatch", s, "enable_multiscale differs");
        if (o.acquisition_dimensions.size != m.dims.size())
            fail_obj("C13.field_mismatch", s,
                     "number of acquisition dimensions differs");
        if (m.dims.empty()) {
            if (o.acquisition_dimensions.data)
                fail_obj("C13.field_mismatch", s,
                         "dimension array present but size is 0");
        } else {
            const void* arr = o.acquisition_dimensions.data;
            if (!arr || !simseam::track_is_live(arr) ||
                simseam::track_size(arr) <
                  m.dims.size() * sizeof(struct StorageDimension))
                fail_obj("C13.dangling_pointer", s,
                         "dimension array is not a live allocation of the "
                         "right size");
            uniq(s, arr, "dimension array");
            for (size_t i = 0; i < m.dims.size(); ++i) {
                const struct StorageDimension& d =
                  o.acquisition_dimensions.data[i];
                const DimM& dm = m.dims[i];
                char f[64];
                snprintf(f, sizeof(f), "dimension[%zu].name", i);
                if (dm.name.empty()) {
                    // never set and never copied: still all zero
                    if (d.name.str || d.name.nbytes)
                        fail_obj("C13.field_mismatch", s,
                                 "an unset dimension has a name");
                } else {
                    check_string(s, f, d.name, dm.name);
                    uniq(s, d.name.str, f);
                }
                if ((int)d.kind != dm.kind || d.array_size_px != dm.a ||
                    d.chunk_size_px != dm.c || d.shard_size_chunks != dm.sh)
                    fail_obj("C13.field_mismatch", s,
                             "dimension kind/sizes differ");
            }
        }
        uniq(s, o.uri.str, "uri");
        uniq(s, o.external_metadata_json.str, "external_metadata_json");
        uniq(s, o.access_key_id.str, "access_key_id");
        uniq(s, o.secret_access_key.str, "secret_access_key");
    }
    // every live allocation of the module must be reachable from a live
    // object: anything else has been leaked by an earlier call
    if (simseam::track_live_blocks() != seen.size())
        oracle_fail("C13.leak_or_stale_block",
                    "%zu blocks allocated by the properties module are live "
                    "but %zu are reachable from live objects (a block was "
                    "leaked or an object points at a freed block)",
                    simseam::track_live_blocks(), seen.size());
}

struct PropsHarness : Harness
{
    const char* name() const override { return "props"; }
    int batch(const std::string&) const override { return 200; }

    bool nontrivial(const std::string&,
                    const std::map<std::string, uint64_t>& p) const override
    {
        auto it = p.find("n.copies_applied");
        return it != p.end() && it->second > 0;
    }

    static std::string gen_str(Rng& g, bool allow_unterminated, bool nonempty)
    {
        int k = (int)g.below(12);
        char b[64];
        uint64_t id = g.below(1000000);
        if (!nonempty) {
            if (k == 0)
                return "null";
            if (k == 1)
                return "z0";
            if (k == 2)
                return "t0.0"; // "" with nbytes 1
        }
        if (allow_unterminated && k == 3) {
            snprintf(b, sizeof(b), "u%d.%llu", (int)g.range(1, 40),
                     (unsigned long long)id);
            return b;
        }
        if (k == 4) {
            snprintf(b, sizeof(b), "t%d.%llu", (int)g.range(200, 3000),
                     (unsigned long long)id);
            return b;
        }
        snprintf(b, sizeof(b), "t%d.%llu", (int)g.range(1, 40),
                 (unsigned long long)id);
        return b;
    }

    Plan generate(uint64_t seed, const std::string& property,
                  const std::string& profile) override
    {
        Plan p;
        p.harness = "props";
        p.property = property;
        p.profile = profile;
        p.seed = seed;
        p.seti("sched.strategy", ST_DEFAULT);
        Rng g(mix64(seed, 0x9a09));
        int nops = (int)g.range(3, 60);
        char b[256];
        for (int i = 0; i < nops; ++i) {
            int k = (int)g.below(20);
            int s = (int)g.below(3), d = (int)g.below(3);
            if (k < 4) {
                snprintf(b, sizeof(b),
                         "init s=%d dims=%d uri=%s meta=%s first=%d px=%d py=%d",
                         s, g.chance(0.5) ? 0 : (int)g.range(1, 4),
                         gen_str(g, true, false).c_str(),
                         gen_str(g, true, false).c_str(), (int)g.below(1000),
                         (int)g.below(9), (int)g.below(9));
            } else if (k < 6) {
                snprintf(b, sizeof(b), "seturi s=%d v=%s", s,
                         gen_str(g, true, false).c_str());
            } else if (k < 8) {
                snprintf(b, sizeof(b), "setmeta s=%d v=%s", s,
                         gen_str(g, true, false).c_str());
            } else if (k < 9) {
                snprintf(b, sizeof(b), "setkeys s=%d a=%s b=%s", s,
                         gen_str(g, true, false).c_str(),
                         gen_str(g, true, false).c_str());
            } else if (k < 12) {
                snprintf(b, sizeof(b),
                         "setdim s=%d i=%d name=%s kind=%d a=%d c=%d sh=%d", s,
                         // (also indices far outside the array, both ways)
                         g.chance(0.1)
                           ? (g.chance(0.5)
                                ? -(int)g.range(1, 3)
                                : (g.chance(0.5) ? INT32_MIN : INT32_MAX))
                           : (int)g.below(5),
                         gen_str(g, false, true).c_str(),
                         (int)g.below(4), (int)g.below(5000), (int)g.below(500),
                         (int)g.below(50));
            } else if (k < 13) {
                snprintf(b, sizeof(b), "setms s=%d v=%d", s, (int)g.below(2));
            } else if (k < 18) {
                if (d == s)
                    d = (s + 1) % 3;
                snprintf(b, sizeof(b), "copy d=%d s=%d", d, s);
            } else {
                snprintf(b, sizeof(b), "destroy s=%d", s);
            }
            std::string line = b;
            if (profile == "oom" && g.chance(0.3)) {
                // refuse one allocation inside this call
                int k = g.chance(0.5) ? 1 : (int)g.range(1, 8);
                line += " af=" + std::to_string(k);
            }
            p.ops.push_back(line);
        }
        return p;
    }

    void execute(const Plan& plan) override
    {
        begin_run(sched_of(plan));
        simseam::track_reset(true);
        World* w = new World();
        memset(w->obj, 0, sizeof(w->obj));
        for (auto& line : plan.ops) {
            Op op = parse_op(line);
            int s = (int)(op.i("s") % 3);
            // af=k: the k-th allocation the module asks for during this call
            // is refused
            const int af = (int)op.i("af", 0);
            auto arm = [&] {
                if (af > 0)
                    simseam::track_fail_nth(af);
            };
            auto refused = [&]() -> bool {
                int f = simseam::track_fail_fired();
                simseam::track_fail_nth(0);
                if (f) {
                    probe("fault.allocation_refused");
                    probe(f == 2 ? "fault.realloc_refused"
                                 : "fault.malloc_refused");
                }
                return f != 0;
            };
            if (op.name == "init") {
                if (w->m[s].live)
                    continue; // init memsets: only for fresh storage
                CStr uri, meta;
                make_str(op.s("uri", "t3.1"), &uri);
                make_str(op.s("meta", "null"), &meta);
                int nd = (int)op.i("dims");
                struct PixelScale px = { (double)op.i("px"),
                                         (double)op.i("py") };
                arm();
                int ok = storage_properties_init(
                  &w->obj[s], (uint32_t)op.i("first"), uri.p, uri.n, meta.p,
                  meta.n, px, (uint8_t)nd);
                const bool oom = refused();
                if (!ok && !oom)
                    oracle_fail("C13.call_failed",
                                "storage_properties_init failed for valid "
                                "arguments (%s)",
                                line.c_str());
                ObjM m;
                m.live = true;
                m.uri = stored_form(uri.p, uri.n);
                m.meta = stored_form(meta.p, meta.n);
                m.first = (uint32_t)op.i("first");
                m.px = px.x;
                m.py = px.y;
                m.dims.resize((size_t)nd);
                if (oom) {
                    // a half-initialised object is still the caller's to
                    // destroy
                    ObjM zero;
                    zero.live = true;
                    resync_after_failure(*w, s, zero, m);
                    probe("reach.init_refused_allocation");
                } else
                    w->m[s] = m;
                probe("n.inits");
            } else if (op.name == "seturi" || op.name == "setmeta") {
                if (!w->m[s].live)
                    continue;
                CStr v;
                make_str(op.s("v", "null"), &v);
                arm();
                int ok = op.name == "seturi"
                           ? storage_properties_set_uri(&w->obj[s], v.p, v.n)
                           : storage_properties_set_external_metadata(
                               &w->obj[s], v.p, v.n);
                const bool oom = refused();
                if (!ok && !oom)
                    oracle_fail("C13.call_failed", "%s failed (%s)",
                                op.name.c_str(), line.c_str());
                ObjM storing = w->m[s];
                (op.name == "seturi" ? storing.uri : storing.meta) =
                  stored_form(v.p, v.n);
                if (oom)
                    resync_after_failure(*w, s, w->m[s], storing);
                else
                    w->m[s] = storing;
                probe("n.sets");
            } else if (op.name == "setkeys") {
                if (!w->m[s].live)
                    continue;
                CStr a, b;
                make_str(op.s("a", "null"), &a);
                make_str(op.s("b", "null"), &b);
                arm();
                int ok = storage_properties_set_access_key_and_secret(
                  &w->obj[s], a.p, a.n, b.p, b.n);
                const bool oom = refused();
                if (!ok && !oom)
                    oracle_fail("C13.call_failed", "set keys failed (%s)",
                                line.c_str());
                ObjM storing = w->m[s];
                storing.key = stored_form(a.p, a.n);
                storing.secret = stored_form(b.p, b.n);
                if (oom)
                    resync_after_failure(*w, s, w->m[s], storing);
                else
                    w->m[s] = storing;
                probe("n.sets");
            } else if (op.name == "setdim") {
                if (!w->m[s].live)
                    continue;
                ObjM& m = w->m[s];
                int idx = (int)op.i("i");
                CStr nm;
                make_str(op.s("name", "t1.1"), &nm);
                bool valid = idx >= 0 && (size_t)idx < m.dims.size() && nm.p &&
                             nm.n > 0 && nm.p[0] != 0;
                int kind = (int)op.i("kind");
                // set_dimension zeroes the slot first: an earlier name must
                // have been released by the module (the leak oracle checks)
                arm();
                int ok = storage_properties_set_dimension(
                  &w->obj[s], idx, nm.p, nm.n, (enum DimensionType)kind,
                  (uint32_t)op.i("a"), (uint32_t)op.i("c"),
                  (uint32_t)op.i("sh"));
                const bool oom = refused();
                if (valid && !ok && !oom)
                    oracle_fail("C13.call_failed", "set_dimension failed (%s)",
                                line.c_str());
                if (!valid && ok)
                    oracle_fail("C13.invalid_accepted",
                                "set_dimension accepted an out-of-range index "
                                "(%s)",
                                line.c_str());
                if (valid) {
                    ObjM storing = m;
                    DimM& d = storing.dims[(size_t)idx];
                    d.set = true;
                    d.name = stored_form(nm.p, nm.n);
                    d.kind = kind;
                    d.a = (uint32_t)op.i("a");
                    d.c = (uint32_t)op.i("c");
                    d.sh = (uint32_t)op.i("sh");
                    if (oom) {
                        ObjM was = m;
                        resync_after_failure(*w, s, was, storing);
                        probe("reach.set_dimension_refused_allocation");
                    } else
                        m = storing;
                    probe("n.dims_set");
                }
            } else if (op.name == "setms") {
                if (!w->m[s].live)
                    continue;
                storage_properties_set_enable_multiscale(&w->obj[s],
                                                         (uint8_t)op.i("v"));
                w->m[s].ms = (uint8_t)op.i("v");
            } else if (op.name == "copy") {
                int d = (int)(op.i("d") % 3);
                if (d == s || !w->m[s].live)
                    continue;
                // dst: zero-initialised or previously initialised
                if (!w->m[d].live)
                    memset(&w->obj[d], 0, sizeof(w->obj[d]));
                ObjM before = w->m[s];
                arm();
                int ok = storage_properties_copy(&w->obj[d], &w->obj[s]);
                const bool oom = refused();
                if (!ok && !oom)
                    oracle_fail("C13.call_failed",
                                "storage_properties_copy failed (%s)",
                                line.c_str());
                bool had_dims = w->m[d].live && !w->m[d].dims.empty();
                ObjM md = before;
                md.live = true;
                // copy_string materialises absent strings as "" (equal as
                // strings: both empty)
                if (md.uri.empty())
                    md.uri = Bytes{ 0 };
                if (md.meta.empty())
                    md.meta = Bytes{ 0 };
                if (md.key.empty())
                    md.key = Bytes{ 0 };
                if (md.secret.empty())
                    md.secret = Bytes{ 0 };
                for (auto& dd : md.dims)
                    if (dd.name.empty())
                        dd.name = Bytes{ 0 };
                if (oom) {
                    ObjM was = w->m[d];
                    was.live = true;
                    resync_after_failure(*w, d, was, md);
                    probe("reach.copy_refused_allocation");
                } else
                    w->m[d] = md;
                probe("n.copies_applied");
                if (!before.dims.empty())
                    probe("reach.copy_source_has_dimensions");
                if (had_dims)
                    probe("reach.copy_dest_has_dimensions");
                if (had_dims && before.dims.empty())
                    probe("reach.copy_drops_dest_dimensions");
            } else if (op.name == "destroy") {
                if (!w->m[s].live)
                    continue;
                storage_properties_destroy(&w->obj[s]);
                w->m[s] = ObjM();
                probe("n.destroys");
            } else
                continue;
            hist("%s", line.c_str());
            check_world(*w);
        }
        for (int s = 0; s < 3; ++s)
            if (w->m[s].live) {
                storage_properties_destroy(&w->obj[s]);
                w->m[s] = ObjM();
            }
        if (simseam::track_live_blocks() != 0)
            oracle_fail("C13.leak",
                        "%zu blocks (%zu bytes) allocated by the properties "
                        "module are still live after every object was "
                        "destroyed",
                        simseam::track_live_blocks(),
                        simseam::track_live_bytes());
        hash_u64(simseam::track_allocs());
        simseam::track_reset(false);
        delete w;
    }
};

static PropsHarness g_props;

struct Reg
{
    Reg()
    {
        register_harness(&g_props);
        CheckSpec c;
        c.property = "C13";
        c.harness = "props";
        c.level = "exploration";
        c.design_ref = "DESIGN.md section 4, C13";
        c.technique =
          "seeded call histories over three live objects against a value "
          "model, with an allocator seam (every malloc/realloc/free of the "
          "module tracked) and ASan; ddmin shrinking and replay";
        c.rule =
          "a case is one generated history of init/set/copy/destroy calls on "
          "three object slots; non-trivial = at least one copy between two "
          "objects was applied; distinct = distinct run fingerprint (hash of "
          "the applied calls and allocation count)";
        c.profiles = { { "hist", 300000, 6000000, false },
                       { "oom", 100000, 2000000, true } };
        c.real_components = {
            "acquire-core-libs/src/acquire-device-properties/device/props/"
            "storage.c"
        };
        c.stub_components = {
            "malloc/realloc/free of that object: tracking shim over the real "
            "allocator (sim/seams.cpp)"
        };
        c.assumptions = {
            "no schedule, clock or I/O is involved: the simulator supplies the "
            "allocator seam, history/model machinery, shrinking and replay",
            "init is only applied to fresh storage (it memsets its argument)",
            "dimension names are NUL-terminated (set_dimension documents this)",
            "profile oom refuses single allocations inside calls; after such "
            "a call only what the property still promises is demanded (valid "
            "owned terminated strings, nothing leaked or released twice, "
            "source untouched, each field old or new), whether the call "
            "reports the failure is not judged"
        };
        c.reach_probes = { "reach.copy_source_has_dimensions",
                           "reach.copy_dest_has_dimensions",
                           "reach.copy_drops_dest_dimensions", "n.dims_set",
                           "fault.malloc_refused", "fault.realloc_refused",
                           "reach.copy_refused_allocation",
                           "reach.init_refused_allocation",
                           "reach.set_dimension_refused_allocation" };
        register_check(c);
    }
} g_reg;

} // namespace
