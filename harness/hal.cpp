// Harness `hal`: real camera.c / storage.c / driver.c / loader.c /
// device.manager.cpp driven directly, against a scripted mock driver whose
// every entry point answers with the next value of a per-run response script
// and which frees the device inside close().  Serves C11.
#include "../sim/harness.h"
#include "../sim/seams.h"
#include "../sim/super.h"
#include "../world/mockdrv.h"

#include <deque>
#include <stdio.h>
#include <stdlib.h>
#include <string.h>

extern "C"
{
#include "device/hal/camera.h"
#include "device/hal/device.manager.h"
#include "device/hal/storage.h"
}

using namespace sim;

namespace {

static void
quiet_reporter(int, const char*, int, const char*, const char*)
{
}

struct HalHarness : Harness
{
    const char* name() const override { return "hal"; }
    int batch(const std::string&) const override { return 200; }

    bool nontrivial(const std::string&,
                    const std::map<std::string, uint64_t>& p) const override
    {
        auto g = [&](const char* k) {
            auto it = p.find(k);
            return it == p.end() ? (uint64_t)0 : it->second;
        };
        return g("n.driver_failures") > 0 && g("n.closes") > 0;
    }

    static std::string status_resp(Rng& g, double p_err)
    {
        return g.chance(p_err) ? "1" : "0";
    }

    static std::string state_resp(Rng& g, int good, double p_bad)
    {
        if (!g.chance(p_bad))
            return std::to_string(good);
        return std::to_string((int)g.below(4));
    }

    Plan generate(uint64_t seed, const std::string& property,
                  const std::string& profile) override
    {
        Plan p;
        p.harness = "hal";
        p.property = property;
        p.profile = profile;
        p.seed = seed;
        p.seti("sched.strategy", ST_DEFAULT);
        Rng g(mix64(seed, 0x4a1));
        double perr = g.chance(0.3) ? 0.0 : (g.chance(0.5) ? 0.15 : 0.4);
        if (g.chance(0.5))
            p.seti("stale_handle_on_failed_open", 1);
        int nops = (int)g.range(3, 50);
        char b[200];
        for (int i = 0; i < nops; ++i) {
            int k = (int)g.below(24);
            int slot = (int)g.below(2);
            switch (k) {
                case 0:
                case 1:
                    snprintf(b, sizeof(b), "copen s=%d ro=%s rd=%s", slot,
                             status_resp(g, perr * 0.3).c_str(),
                             status_resp(g, perr * 0.3).c_str());
                    break;
                case 2:
                case 3:
                    snprintf(b, sizeof(b), "sopen s=%d ro=%s rd=%s", slot,
                             status_resp(g, perr * 0.3).c_str(),
                             status_resp(g, perr * 0.3).c_str());
                    break;
                case 4:
                case 5:
                    snprintf(b, sizeof(b), "cset s=%d r=%s,%s", slot,
                             status_resp(g, perr).c_str(),
                             status_resp(g, perr).c_str());
                    break;
                case 6:
                    snprintf(b, sizeof(b), "cget s=%d r=%s", slot,
                             status_resp(g, perr).c_str());
                    break;
                case 7:
                    snprintf(b, sizeof(b), "cmeta s=%d", slot);
                    break;
                case 8:
                    snprintf(b, sizeof(b), "cshape s=%d r=%s", slot,
                             status_resp(g, perr).c_str());
                    break;
                case 9:
                case 10:
                    snprintf(b, sizeof(b), "cstart s=%d r=%s", slot,
                             status_resp(g, perr).c_str());
                    break;
                case 11:
                    snprintf(b, sizeof(b), "cstop s=%d r=%s", slot,
                             status_resp(g, perr).c_str());
                    break;
                case 12:
                    snprintf(b, sizeof(b), "ctrig s=%d r=%s", slot,
                             status_resp(g, perr).c_str());
                    break;
                case 13:
                case 14:
                    snprintf(b, sizeof(b), "cframe s=%d r=%s,%s", slot,
                             status_resp(g, perr).c_str(),
                             status_resp(g, perr).c_str());
                    break;
                case 15:
                    snprintf(b, sizeof(b), "cclose s=%d r=%s", slot,
                             status_resp(g, perr).c_str());
                    break;
                case 16:
                case 17:
                    snprintf(b, sizeof(b), "sset s=%d r=%s", slot,
                             state_resp(g, 2, perr).c_str());
                    break;
                case 18:
                    snprintf(b, sizeof(b), "sstart s=%d r=%s", slot,
                             state_resp(g, 3, perr).c_str());
                    break;
                case 19:
                case 20:
                    snprintf(b, sizeof(b), "sappend s=%d n=%d r=%s", slot,
                             (int)g.below(3), state_resp(g, 3, perr).c_str());
                    break;
                case 21:
                    snprintf(b, sizeof(b), "sstop s=%d r=%s", slot,
                             state_resp(g, 2, perr).c_str());
                    break;
                case 22:
                    snprintf(b, sizeof(b), "smisc s=%d", slot);
                    break;
                default:
                    snprintf(b, sizeof(b), "sclose s=%d r=%s,%s", slot,
                             state_resp(g, 2, perr).c_str(),
                             status_resp(g, perr).c_str());
                    break;
            }
            p.ops.push_back(b);
        }
        return p;
    }

    void execute(const Plan& plan) override
    {
        begin_run(sched_of(plan));
        simdl::reset();
        mock::reset();
        {
            simdl::Lib absent;
            simdl::set_lib("acquire-driver-common", absent);
            simdl::Lib l;
            l.present = true;
            l.init = mock::driver_init(0);
            simdl::set_lib("acquire-driver-hdcam", l);
            mock::define_driver(0, { { DeviceKind_Camera, "mock camera A" },
                                     { DeviceKind_Storage, "mock storage A" },
                                     { DeviceKind_Camera, "mock camera B" },
                                     { DeviceKind_Storage, "mock storage B" } });
        }
        std::deque<int> script; // responses for state/status returning calls
        int open_resp = 0, describe_resp = 0;
        bool scripting = false;
        auto pop = [&](int dflt) {
            if (script.empty())
                return dflt;
            int v = script.front();
            script.pop_front();
            if (v != dflt)
                probe("n.driver_failures");
            return v;
        };
        mock::Hooks& H = mock::hooks();
        H.failed_open_leaves_stale_handle =
          plan.geti("stale_handle_on_failed_open", 0) != 0;
        H.open = [&](int, uint64_t) { return scripting ? open_resp : 0; };
        H.describe = [&](int, uint64_t) {
            return scripting ? describe_resp : 0;
        };
        H.close = [&](int) { return pop(0); };
        H.cam_set = [&](int, struct CameraProperties*) { return pop(0); };
        H.cam_get = [&](int, struct CameraProperties*) { return pop(0); };
        H.cam_get_shape = [&](int, struct ImageShape* s) {
            memset(s, 0, sizeof(*s));
            return pop(0);
        };
        H.cam_start = [&](int) { return pop(0); };
        H.cam_stop = [&](int) { return pop(0); };
        H.cam_trigger = [&](int) { return pop(0); };
        H.cam_get_frame = [&](int, void*, size_t* n, struct ImageInfo*) {
            *n = 0;
            return pop(0);
        };
        H.st_set = [&](int, const struct StorageProperties*) { return pop(2); };
        H.st_start = [&](int) { return pop(3); };
        H.st_append = [&](int, const struct VideoFrame*, size_t*) {
            return pop(3);
        };
        H.st_stop = [&](int) { return pop(2); };

        struct DeviceManager dm = { 0 };
        if (device_manager_init(&dm, quiet_reporter) != Device_Ok)
            oracle_fail("C11.harness", "device manager failed to initialise");
        scripting = true;

        struct Camera* cam[2] = { 0, 0 };
        struct Storage* sto[2] = { 0, 0 };
        int cstate[2] = { 0, 0 }, sstate[2] = { 0, 0 }; // expected HAL states

        auto parse_script = [&](const std::string& r) {
            script.clear();
            size_t i = 0;
            while (i < r.size()) {
                script.push_back(atoi(r.c_str() + i));
                size_t c = r.find(',', i);
                if (c == std::string::npos)
                    break;
                i = c + 1;
            }
        };
        // first call named `what` on instance inst logged at index >= from
        auto find_call = [&](size_t from, int inst,
                             const char* what) -> const mock::Call* {
            auto& log = mock::calls();
            for (size_t i = from; i < log.size(); ++i)
                if (log[i].inst == inst && log[i].call == what)
                    return &log[i];
            return nullptr;
        };
        auto check_proto = [&]() {
            std::string suffix;
            std::string v = mock::check_protocol(false, &suffix);
            if (!v.empty())
                oracle_fail(("C11." + suffix).c_str(), "%s", v.c_str());
        };
        unsigned char framebuf[64];
        union
        {
            struct VideoFrame f;
            unsigned char bytes[sizeof(struct VideoFrame) + 16];
        } packet;
        memset(&packet, 0, sizeof(packet));
        packet.f.bytes_of_frame = sizeof(struct VideoFrame) + 8;

        for (auto& line : plan.ops) {
            Op op = parse_op(line);
            int s = (int)(op.i("s") % 2);
            size_t log0 = mock::calls().size();
            parse_script(op.s("r", ""));
            if (op.name == "copen" || op.name == "sopen") {
                bool iscam = op.name == "copen";
                if ((iscam ? (void*)cam[s] : (void*)sto[s]) != nullptr)
                    continue;
                open_resp = (int)op.i("ro");
                describe_resp = (int)op.i("rd");
                script.clear();
                struct DeviceIdentifier id = { 0 };
                id.driver_id = 1; // hdcam slot
                id.device_id = (uint8_t)((iscam ? 0 : 1) + 2 * s);
                id.kind = iscam ? DeviceKind_Camera : DeviceKind_Storage;
                int before = mock::open_instances();
                if (iscam) {
                    cam[s] = camera_open(&dm, &id);
                    if (cam[s])
                        cstate[s] = DeviceState_AwaitingConfiguration;
                } else {
                    sto[s] = storage_open(&dm, &id);
                    if (sto[s])
                        sstate[s] = DeviceState_AwaitingConfiguration;
                }
                bool got = iscam ? cam[s] != nullptr : sto[s] != nullptr;
                if (open_resp || describe_resp)
                    probe("n.driver_failures");
                if (!got && mock::open_instances() != before)
                    oracle_fail("C11.open_failed_but_device_left_open",
                                "%s_open reported failure (driver open=%d, "
                                "describe=%d) but the device the driver "
                                "opened was never closed",
                                iscam ? "camera" : "storage", open_resp,
                                describe_resp);
                if (got)
                    probe("n.opens");
            } else if (op.name[0] == 'c') {
                if (!cam[s])
                    continue;
                int inst = mock::inst_of_camera(cam[s]);
                int prev = cstate[s];
                if (op.name == "cset") {
                    struct CameraProperties props;
                    memset(&props, 0, sizeof(props));
                    camera_set(cam[s], &props);
                    const mock::Call* c = find_call(log0, inst, "set");
                    if (c)
                        cstate[s] = c->resp == Device_Ok
                                      ? (prev == DeviceState_Running
                                           ? DeviceState_Running
                                           : DeviceState_Armed)
                                      : DeviceState_AwaitingConfiguration;
                } else if (op.name == "cget") {
                    struct CameraProperties props;
                    camera_get(cam[s], &props);
                } else if (op.name == "cmeta") {
                    struct CameraPropertyMetadata meta;
                    camera_get_meta(cam[s], &meta);
                } else if (op.name == "cshape") {
                    struct ImageShape shape;
                    camera_get_image_shape(cam[s], &shape);
                } else if (op.name == "cstart") {
                    camera_start(cam[s]);
                    const mock::Call* c = find_call(log0, inst, "start");
                    if (c)
                        cstate[s] = c->resp == Device_Ok
                                      ? DeviceState_Running
                                      : DeviceState_AwaitingConfiguration;
                } else if (op.name == "cstop") {
                    camera_stop(cam[s]);
                    const mock::Call* c = find_call(log0, inst, "stop");
                    if (c)
                        cstate[s] = c->resp == Device_Ok
                                      ? DeviceState_Armed
                                      : DeviceState_AwaitingConfiguration;
                } else if (op.name == "ctrig") {
                    camera_execute_trigger(cam[s]);
                } else if (op.name == "cframe") {
                    size_t n = sizeof(framebuf);
                    struct ImageInfo info;
                    memset(&info, 0, sizeof(info));
                    camera_get_frame(cam[s], framebuf, &n, &info);
                    const mock::Call* c = find_call(log0, inst, "get_frame");
                    if (c && c->resp != Device_Ok)
                        cstate[s] = DeviceState_AwaitingConfiguration;
                } else if (op.name == "cclose") {
                    camera_close(cam[s]);
                    cam[s] = nullptr;
                    probe("n.closes");
                    if (!mock::instance(inst).closed)
                        oracle_fail("C11.close_not_forwarded",
                                    "camera_close returned but the driver "
                                    "never saw close() for the device");
                } else
                    continue;
                if (cam[s]) {
                    int st = (int)camera_get_state(cam[s]);
                    if (st != cstate[s])
                        oracle_fail(
                          "C11.state_not_from_driver_response",
                          "after %s the HAL reports camera state %d but the "
                          "driver's responses imply %d (previous state %d)",
                          line.c_str(), st, cstate[s], prev);
                }
            } else if (op.name[0] == 's') {
                if (!sto[s])
                    continue;
                int inst = mock::inst_of_storage(sto[s]);
                int prev = sstate[s];
                const char* primary = nullptr;
                if (op.name == "sset") {
                    struct StorageProperties props;
                    memset(&props, 0, sizeof(props));
                    storage_set(sto[s], &props);
                    primary = "set";
                } else if (op.name == "sstart") {
                    storage_start(sto[s]);
                    primary = "start";
                } else if (op.name == "sappend") {
                    int n = (int)op.i("n");
                    const struct VideoFrame* beg = &packet.f;
                    const struct VideoFrame* end =
                      n ? (const struct VideoFrame*)(packet.bytes +
                                                     packet.f.bytes_of_frame)
                        : beg;
                    storage_append(sto[s], beg, end);
                    primary = "append";
                } else if (op.name == "sstop") {
                    storage_stop(sto[s]);
                    primary = "stop";
                } else if (op.name == "smisc") {
                    struct StorageProperties props;
                    struct StoragePropertyMetadata meta;
                    struct ImageShape shape;
                    memset(&shape, 0, sizeof(shape));
                    storage_get(sto[s], &props);
                    storage_get_meta(sto[s], &meta);
                    storage_reserve_image_shape(sto[s], &shape);
                } else if (op.name == "sclose") {
                    storage_close(sto[s]);
                    sto[s] = nullptr;
                    probe("n.closes");
                    if (!mock::instance(inst).closed)
                        oracle_fail("C11.close_not_forwarded",
                                    "storage_close returned but the driver "
                                    "never saw close() for the device");
                } else
                    continue;
                if (primary) {
                    const mock::Call* c = find_call(log0, inst, primary);
                    if (c)
                        sstate[s] = c->resp;
                }
                if (sto[s]) {
                    int st = (int)storage_get_state(sto[s]);
                    if (st != sstate[s])
                        oracle_fail(
                          "C11.state_not_from_driver_response",
                          "after %s the HAL reports storage state %d but the "
                          "driver's last response was %d (previous state %d)",
                          line.c_str(), st, sstate[s], prev);
                }
            } else
                continue;
            hist("%s", line.c_str());
            check_proto();
        }
        // close whatever is still open, then the protocol word must be whole
        script.clear();
        for (int s = 0; s < 2; ++s) {
            if (cam[s])
                camera_close(cam[s]);
            if (sto[s])
                storage_close(sto[s]);
        }
        {
            std::string suffix;
            std::string v = mock::check_protocol(true, &suffix);
            if (!v.empty())
                oracle_fail(("C11." + suffix).c_str(), "%s", v.c_str());
        }
        for (auto& I : mock::instances())
            if (I.closes != 1)
                oracle_fail("C11.close_count",
                            "device instance %d was closed %d times", I.id,
                            I.closes);
        device_manager_destroy(&dm);
        hash_u64(mock::calls().size());
    }
};

static HalHarness g_hal;

struct Reg
{
    Reg()
    {
        register_harness(&g_hal);
        CheckSpec c;
        c.property = "C11";
        c.harness = "hal";
        c.level = "fault_enumeration";
        c.design_ref = "DESIGN.md section 4, C11";
        c.technique =
          "seeded HAL call histories with a scripted fault-injecting mock "
          "driver (every driver response drawn from the plan); the mock frees "
          "the device in close so ASan sees any touch-after-close";
        c.rule =
          "a case is one generated history of HAL calls on two camera and two "
          "storage slots with the driver's response attached to each call; "
          "non-trivial = at least one driver call answered with a "
          "failure/unexpected state and at least one device was closed; "
          "distinct = distinct run fingerprint";
        c.profiles = { { "hist", 300000, 6000000, true } };
        c.real_components = {
            "acquire-core-libs/src/acquire-device-hal/device/hal/camera.c",
            "acquire-core-libs/src/acquire-device-hal/device/hal/storage.c",
            "acquire-core-libs/src/acquire-device-hal/device/hal/driver.c",
            "acquire-core-libs/src/acquire-device-hal/device/hal/loader.c",
            "acquire-core-libs/src/acquire-device-hal/device/hal/"
            "device.manager.cpp",
            "acquire-core-libs/src/acquire-core-platform/linux/platform.c "
            "(lib_open_by_name / lib_load)"
        };
        c.stub_components = {
            "driver: world/mockdrv.cpp (scripted responses, records calls, "
            "frees the device in close)",
            "dlopen/dlsym/dlclose: sim/seams.cpp"
        };
        c.assumptions = {
            "single simulated thread: the faults are the driver's responses",
            "the harness never calls the HAL on a pointer after close "
            "returned; 'nothing afterwards' is judged on what the HAL itself "
            "does during and after the driver's close",
            "driver function pointers are all non-NULL (an incomplete driver "
            "is not a status code)"
        };
        c.reach_probes = { "n.driver_failures", "n.closes", "n.opens" };
        register_check(c);
    }
} g_reg;

} // namespace
