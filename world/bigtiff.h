// Independent little-endian BigTIFF reader, written from the TIFF 6.0 /
// BigTIFF specification (not from tiff.cpp).  Parses the directory chain of a
// byte vector and reports structural problems.  Used by the C15 oracle.
#pragma once
#include <stdint.h>
#include <string>
#include <vector>
#include <map>

namespace bigtiff {

// What the reader reads from: a byte vector, or a (possibly sparse, > 4 GiB)
// file of the simulated file layer.
struct Bytes
{
    virtual ~Bytes() {}
    virtual uint64_t size() const = 0;
    // bytes beyond the end read as zero (callers check bounds first)
    virtual void read(uint64_t off, uint64_t n, uint8_t* out) const = 0;
    uint8_t at(uint64_t o) const
    {
        uint8_t b = 0;
        read(o, 1, &b);
        return b;
    }
};

struct VecBytes : Bytes
{
    const std::vector<uint8_t>& v;
    explicit VecBytes(const std::vector<uint8_t>& v_)
      : v(v_)
    {
    }
    uint64_t size() const override { return v.size(); }
    void read(uint64_t off, uint64_t n, uint8_t* out) const override
    {
        for (uint64_t i = 0; i < n; ++i)
            out[i] = off + i < v.size() ? v[(size_t)(off + i)] : 0;
    }
};

struct Entry
{
    uint16_t tag;
    uint16_t type;
    uint64_t count;
    uint64_t value_or_offset; // raw 8 bytes (LE)
    bool inline_value;
    uint64_t data_offset;     // where the value bytes live in the file
    uint64_t data_bytes;
};

struct Ifd
{
    uint64_t offset;
    uint64_t next;
    uint64_t next_field_offset;
    std::vector<Entry> entries;
    const Entry* find(uint16_t tag) const;
    // scalar value of a SHORT/LONG/LONG8 entry with count 1
    bool scalar(uint16_t tag, const Bytes& file, uint64_t* out) const;
    bool scalar(uint16_t tag, const std::vector<uint8_t>& file,
                uint64_t* out) const
    {
        return scalar(tag, VecBytes(file), out);
    }
};

struct File
{
    std::vector<Ifd> ifds;
    std::string error; // empty = structurally valid
};

// Parses; on any structural violation sets error and stops.
File
parse(const Bytes& bytes);
inline File
parse(const std::vector<uint8_t>& bytes)
{
    return parse(VecBytes(bytes));
}

// ASCII value of an entry (without the trailing NUL)
std::string
ascii(const Entry& e, const Bytes& bytes);
inline std::string
ascii(const Entry& e, const std::vector<uint8_t>& bytes)
{
    return ascii(e, VecBytes(bytes));
}

// ---------------------------------------------------------------- mini JSON
struct Json
{
    enum Kind
    {
        Null,
        Bool,
        Number,
        String,
        Object,
        Array
    } kind = Null;
    double num = 0;
    std::string raw; // for numbers: the literal text
    std::string str;
    bool b = false;
    std::vector<std::pair<std::string, Json>> obj;
    std::vector<Json> arr;
    const Json* get(const std::string& k) const;
};

bool
parse_json(const std::string& text, Json* out, std::string* err);

} // namespace bigtiff
