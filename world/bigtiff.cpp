#include "bigtiff.h"

#include <algorithm>
#include <stdio.h>
#include <stdlib.h>
#include <string.h>

namespace bigtiff {

static uint16_t
rd16(const Bytes& b, uint64_t o)
{
    uint8_t t[2];
    b.read(o, 2, t);
    return (uint16_t)(t[0] | (t[1] << 8));
}

static uint64_t
rd64(const Bytes& b, uint64_t o)
{
    uint8_t t[8];
    b.read(o, 8, t);
    uint64_t v = 0;
    for (int i = 7; i >= 0; --i)
        v = (v << 8) | t[i];
    return v;
}

static uint64_t
type_size(uint16_t t)
{
    switch (t) {
        case 1:  // BYTE
        case 2:  // ASCII
        case 6:  // SBYTE
        case 7:  // UNDEFINED
            return 1;
        case 3: // SHORT
        case 8: // SSHORT
            return 2;
        case 4:  // LONG
        case 9:  // SLONG
        case 11: // FLOAT
        case 13: // IFD
            return 4;
        case 5:  // RATIONAL
        case 10: // SRATIONAL
        case 12: // DOUBLE
        case 16: // LONG8
        case 17: // SLONG8
        case 18: // IFD8
            return 8;
        default:
            return 0;
    }
}

const Entry*
Ifd::find(uint16_t tag) const
{
    for (auto& e : entries)
        if (e.tag == tag)
            return &e;
    return nullptr;
}

bool
Ifd::scalar(uint16_t tag, const Bytes& file, uint64_t* out) const
{
    const Entry* e = find(tag);
    if (!e || e->count != 1)
        return false;
    uint64_t o = e->data_offset;
    switch (e->type) {
        case 3:
            *out = rd16(file, o);
            return true;
        case 4:
            *out = rd16(file, o) | ((uint64_t)rd16(file, o + 2) << 16);
            return true;
        case 16:
        case 18:
            *out = rd64(file, o);
            return true;
        default:
            return false;
    }
}

std::string
ascii(const Entry& e, const Bytes& bytes)
{
    std::string s((size_t)e.data_bytes, '\0');
    if (e.data_bytes)
        bytes.read(e.data_offset, e.data_bytes, (uint8_t*)&s[0]);
    while (!s.empty() && s.back() == 0)
        s.pop_back();
    return s;
}

struct Interval
{
    uint64_t a, b;
    std::string what;
};

File
parse(const Bytes& f)
{
    File out;
    char msg[256];
    auto fail = [&](const char* m) {
        out.error = m;
        return out;
    };
    if (f.size() < 16)
        return fail("file shorter than the 16-byte BigTIFF header");
    if (!(f.at(0) == 'I' && f.at(1) == 'I'))
        return fail("byte order mark is not 'II' (little endian)");
    if (rd16(f, 2) != 43)
        return fail("version is not 43 (BigTIFF)");
    if (rd16(f, 4) != 8)
        return fail("offset size is not 8");
    if (rd16(f, 6) != 0)
        return fail("header constant is not 0");
    std::vector<Interval> iv;
    iv.push_back({ 0, 16, "header" });
    uint64_t off = rd64(f, 8);
    int guard = 0;
    while (off != 0) {
        if (++guard > 100000)
            return fail("directory chain does not terminate (cycle?)");
        if (off + 8 > f.size()) {
            snprintf(msg, sizeof(msg),
                     "directory %zu at offset %llu lies outside the file "
                     "(%llu bytes)",
                     out.ifds.size(), (unsigned long long)off, (unsigned long long)f.size());
            return fail(msg);
        }
        uint64_t n = rd64(f, off);
        if (n > 4096)
            return fail("directory has an absurd number of entries");
        uint64_t end = off + 8 + 20 * n + 8;
        if (end > f.size()) {
            snprintf(msg, sizeof(msg),
                     "directory %zu at offset %llu (%llu entries) extends "
                     "past the end of the file (%llu bytes)",
                     out.ifds.size(), (unsigned long long)off,
                     (unsigned long long)n, (unsigned long long)f.size());
            return fail(msg);
        }
        Ifd d;
        d.offset = off;
        snprintf(msg, sizeof(msg), "directory %zu", out.ifds.size());
        iv.push_back({ off, end, msg });
        for (uint64_t i = 0; i < n; ++i) {
            uint64_t eo = off + 8 + 20 * i;
            Entry e;
            e.tag = rd16(f, eo);
            e.type = rd16(f, eo + 2);
            e.count = rd64(f, eo + 4);
            e.value_or_offset = rd64(f, eo + 12);
            uint64_t ts = type_size(e.type);
            if (!ts) {
                snprintf(msg, sizeof(msg),
                         "directory %zu tag %u has unknown field type %u",
                         out.ifds.size(), e.tag, e.type);
                return fail(msg);
            }
            e.data_bytes = ts * e.count;
            if (e.data_bytes <= 8) {
                e.inline_value = true;
                e.data_offset = eo + 12;
            } else {
                e.inline_value = false;
                e.data_offset = e.value_or_offset;
                if (e.data_offset + e.data_bytes > f.size() ||
                    e.data_offset + e.data_bytes < e.data_offset) {
                    snprintf(msg, sizeof(msg),
                             "directory %zu tag %u: value at offset %llu "
                             "(%llu bytes) lies outside the file (%llu bytes)",
                             out.ifds.size(), e.tag,
                             (unsigned long long)e.data_offset,
                             (unsigned long long)e.data_bytes, (unsigned long long)f.size());
                    return fail(msg);
                }
                snprintf(msg, sizeof(msg), "directory %zu tag %u value",
                         out.ifds.size(), e.tag);
                iv.push_back(
                  { e.data_offset, e.data_offset + e.data_bytes, msg });
            }
            d.entries.push_back(e);
        }
        d.next_field_offset = off + 8 + 20 * n;
        d.next = rd64(f, d.next_field_offset);
        // strips
        {
            uint64_t so = 0, sc = 0;
            bool has_o = d.scalar(273, f, &so), has_c = d.scalar(279, f, &sc);
            if (has_o && has_c) {
                if (so + sc > f.size() || so + sc < so) {
                    snprintf(msg, sizeof(msg),
                             "directory %zu: strip at offset %llu (%llu "
                             "bytes) lies outside the file (%llu bytes)",
                             out.ifds.size(), (unsigned long long)so,
                             (unsigned long long)sc, (unsigned long long)f.size());
                    return fail(msg);
                }
                snprintf(msg, sizeof(msg), "directory %zu strip",
                         out.ifds.size());
                if (sc)
                    iv.push_back({ so, so + sc, msg });
            }
        }
        out.ifds.push_back(d);
        off = d.next;
    }
    // no two structures overlap
    std::sort(iv.begin(), iv.end(),
              [](const Interval& x, const Interval& y) { return x.a < y.a; });
    for (size_t i = 1; i < iv.size(); ++i)
        if (iv[i].a < iv[i - 1].b) {
            snprintf(msg, sizeof(msg),
                     "%s [%llu,%llu) overlaps %s [%llu,%llu)",
                     iv[i - 1].what.c_str(), (unsigned long long)iv[i - 1].a,
                     (unsigned long long)iv[i - 1].b, iv[i].what.c_str(),
                     (unsigned long long)iv[i].a, (unsigned long long)iv[i].b);
            out.error = msg;
            return out;
        }
    return out;
}

// ---------------------------------------------------------------- mini JSON
struct P
{
    const std::string& s;
    size_t i = 0;
    std::string err;
    explicit P(const std::string& t)
      : s(t)
    {
    }
    void ws()
    {
        while (i < s.size() && (s[i] == ' ' || s[i] == '\n' || s[i] == '\t' ||
                                s[i] == '\r'))
            ++i;
    }
    bool value(Json* out, int depth)
    {
        if (depth > 64) {
            err = "nesting too deep";
            return false;
        }
        ws();
        if (i >= s.size()) {
            err = "unexpected end";
            return false;
        }
        char c = s[i];
        if (c == '{') {
            ++i;
            out->kind = Json::Object;
            ws();
            if (i < s.size() && s[i] == '}') {
                ++i;
                return true;
            }
            for (;;) {
                ws();
                Json k;
                if (i >= s.size() || s[i] != '"' || !string(&k.str)) {
                    if (err.empty())
                        err = "expected object key";
                    return false;
                }
                ws();
                if (i >= s.size() || s[i] != ':') {
                    err = "expected ':'";
                    return false;
                }
                ++i;
                Json v;
                if (!value(&v, depth + 1))
                    return false;
                out->obj.push_back({ k.str, v });
                ws();
                if (i < s.size() && s[i] == ',') {
                    ++i;
                    continue;
                }
                if (i < s.size() && s[i] == '}') {
                    ++i;
                    return true;
                }
                err = "expected ',' or '}'";
                return false;
            }
        }
        if (c == '[') {
            ++i;
            out->kind = Json::Array;
            ws();
            if (i < s.size() && s[i] == ']') {
                ++i;
                return true;
            }
            for (;;) {
                Json v;
                if (!value(&v, depth + 1))
                    return false;
                out->arr.push_back(v);
                ws();
                if (i < s.size() && s[i] == ',') {
                    ++i;
                    continue;
                }
                if (i < s.size() && s[i] == ']') {
                    ++i;
                    return true;
                }
                err = "expected ',' or ']'";
                return false;
            }
        }
        if (c == '"') {
            out->kind = Json::String;
            return string(&out->str);
        }
        if (s.compare(i, 4, "true") == 0) {
            out->kind = Json::Bool;
            out->b = true;
            i += 4;
            return true;
        }
        if (s.compare(i, 5, "false") == 0) {
            out->kind = Json::Bool;
            i += 5;
            return true;
        }
        if (s.compare(i, 4, "null") == 0) {
            out->kind = Json::Null;
            i += 4;
            return true;
        }
        if (c == '-' || (c >= '0' && c <= '9')) {
            size_t j = i;
            if (s[j] == '-')
                ++j;
            while (j < s.size() &&
                   ((s[j] >= '0' && s[j] <= '9') || s[j] == '.' ||
                    s[j] == 'e' || s[j] == 'E' || s[j] == '+' || s[j] == '-'))
                ++j;
            out->kind = Json::Number;
            out->raw = s.substr(i, j - i);
            out->num = strtod(out->raw.c_str(), 0);
            i = j;
            return true;
        }
        err = "unexpected character";
        return false;
    }
    bool string(std::string* out)
    {
        ++i; // opening quote
        while (i < s.size() && s[i] != '"') {
            if (s[i] == '\\') {
                if (i + 1 >= s.size()) {
                    err = "bad escape";
                    return false;
                }
                out->push_back(s[i + 1]);
                i += 2;
            } else
                out->push_back(s[i++]);
        }
        if (i >= s.size()) {
            err = "unterminated string";
            return false;
        }
        ++i;
        return true;
    }
};

const Json*
Json::get(const std::string& k) const
{
    for (auto& kv : obj)
        if (kv.first == k)
            return &kv.second;
    return nullptr;
}

bool
parse_json(const std::string& text, Json* out, std::string* err)
{
    P p(text);
    if (!p.value(out, 0)) {
        if (err)
            *err = p.err;
        return false;
    }
    p.ws();
    if (p.i != text.size()) {
        if (err)
            *err = "trailing characters after the JSON value";
        return false;
    }
    return true;
}

} // namespace bigtiff
