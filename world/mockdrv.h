// Mock driver implementing the device-kit interfaces (Driver/Camera/Storage).
// It records every call with the global event number, keeps tombstones of
// closed devices and frees the device object inside close(), so that any
// later touch by the code under test is an ASan use-after-free.
// Behaviour is supplied by the harness through hooks.  DESIGN.md section 2.6.
#pragma once
#include <functional>
#include <stdint.h>
#include <string>
#include <vector>

extern "C"
{
#include "device/kit/camera.h"
#include "device/kit/driver.h"
#include "device/kit/storage.h"
#include "device/props/camera.h"
#include "device/props/components.h"
#include "device/props/storage.h"
}

namespace mock {

struct Call
{
    uint64_t seq;  // global order (log index)
    uint64_t step; // scheduling step
    int tid;       // simulated thread
    int drv;       // driver instance
    int inst;      // device instance (-1 for driver-level calls)
    int dev;       // device index within the driver
    int kind;      // DeviceKind
    std::string call;
    int64_t a = 0, b = 0;
    int resp = 0; // status / state returned
    bool returned = false;
};

struct DeviceDesc
{
    enum DeviceKind kind;
    std::string name; // may contain any bytes except NUL, up to 255
};

struct Inst
{
    int id;
    int drv;
    int dev;
    enum DeviceKind kind;
    bool closed = false;
    void* object = nullptr; // MockCamera* / MockStorage* while open
    // driver-side view used by the protocol oracles
    bool running = false;
    int starts = 0, stops = 0, closes = 0;
};

struct Hooks
{
    // Every hook may be empty (default: success).  `inst` identifies the
    // device instance.  Status hooks return DeviceStatusCode, state hooks a
    // DeviceState.
    std::function<int(int drv, uint64_t dev)> open;     // status
    std::function<int(int drv, uint64_t dev)> describe; // status
    std::function<int(int inst)> close;                 // status
    std::function<int(int inst, struct CameraProperties*)> cam_set;
    std::function<int(int inst, struct CameraProperties*)> cam_get;
    std::function<int(int inst, struct CameraPropertyMetadata*)> cam_get_meta;
    std::function<int(int inst, struct ImageShape*)> cam_get_shape;
    std::function<int(int inst)> cam_start;
    std::function<int(int inst)> cam_stop;
    std::function<int(int inst)> cam_trigger;
    std::function<int(int inst, void*, size_t*, struct ImageInfo*)> cam_get_frame;
    std::function<int(int inst, const struct StorageProperties*)> st_set; // state
    std::function<void(int inst, struct StorageProperties*)> st_get;
    std::function<int(int inst)> st_start; // state
    std::function<int(int inst, const struct VideoFrame*, size_t*)> st_append;
    std::function<int(int inst)> st_stop; // state
    std::function<void(int inst, const struct ImageShape*)> st_reserve;
    std::function<int(int drv)> shutdown; // status
    // a failing open() leaves the address of a half-built device it has
    // already released in *out (legal: the value of *out after a failed open
    // means nothing)
    bool failed_open_leaves_stale_handle = false;
    // called at the entry of every mock call (yield point etc.)
    std::function<void(const char* call, int inst)> enter;
    // called when a mock call is about to return
    std::function<void(const char* call, int inst)> leave;
};

void
reset();
// defines a mock driver `drv` (0..3) with its device table
void
define_driver(int drv, const std::vector<DeviceDesc>& devices);
Hooks&
hooks();
const std::vector<Call>&
calls();
const std::vector<Inst>&
instances();
Inst&
instance(int id);
int
open_instances();
int
driver_shutdowns(int drv);
// init entry points to register with the dl seam
typedef struct Driver* (*init_fn)(void (*)(int, const char*, int, const char*,
                                           const char*));
init_fn
driver_init(int drv);
// instance id of a device object handed to the HAL (or -1)
int
inst_of_camera(const struct Camera* c);
int
inst_of_storage(const struct Storage* s);

// ----------------------------------------------------------------------
// Protocol oracle over the call log (C08 / C11).  Returns an empty string if
// every device instance saw a legal call word, else a description.
//   require_close: every opened instance must be closed by the end
std::string
check_protocol(bool require_close, std::string* oracle_suffix,
               const char* ignore_suffix = nullptr);

} // namespace mock
