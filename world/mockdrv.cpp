#include "mockdrv.h"
#include "../sim/kernel.h"

#include <stdlib.h>
#include <string.h>

namespace mock {

struct MockCamera
{
    struct Camera camera; // must be first
    int inst;
};

struct MockStorage
{
    struct Storage storage; // must be first
    int inst;
};

struct MockDriver
{
    struct Driver driver; // must be first
    int drv;
};

struct DriverDef
{
    std::vector<DeviceDesc> devices;
    MockDriver* obj = nullptr;
    int shutdowns = 0;
};

static DriverDef g_drv[4];
static Hooks g_hooks;
static std::vector<Call> g_calls;
static std::vector<Inst> g_inst;
static std::vector<std::string> g_violations; // "suffix|text"

void
reset()
{
    for (auto& d : g_drv) {
        d.devices.clear();
        d.obj = nullptr; // freed by shutdown or leaked with the run
        d.shutdowns = 0;
    }
    g_hooks = Hooks();
    g_calls.clear();
    g_inst.clear();
    g_violations.clear();
}

void
define_driver(int drv, const std::vector<DeviceDesc>& devices)
{
    g_drv[drv].devices = devices;
}

Hooks&
hooks()
{
    return g_hooks;
}

const std::vector<Call>&
calls()
{
    return g_calls;
}

const std::vector<Inst>&
instances()
{
    return g_inst;
}

Inst&
instance(int id)
{
    return g_inst[(size_t)id];
}

int
open_instances()
{
    int n = 0;
    for (auto& i : g_inst)
        n += !i.closed;
    return n;
}

int
driver_shutdowns(int drv)
{
    return g_drv[drv].shutdowns;
}

static size_t
begin_call(int drv, int inst, const char* name, int64_t a = 0, int64_t b = 0)
{
    if (g_hooks.enter)
        g_hooks.enter(name, inst);
    Call c;
    c.seq = g_calls.size();
    c.step = sim::steps();
    c.tid = sim::self();
    c.drv = drv;
    c.inst = inst;
    c.dev = inst >= 0 ? g_inst[(size_t)inst].dev : -1;
    c.kind = inst >= 0 ? (int)g_inst[(size_t)inst].kind : 0;
    c.call = name;
    c.a = a;
    c.b = b;
    g_calls.push_back(c);
    return g_calls.size() - 1;
}

static void
end_call(size_t idx, int resp)
{
    g_calls[idx].resp = resp;
    g_calls[idx].returned = true;
    // returning from a device call is a preemption point too: the caller may
    // be descheduled between the device's action and its own next statement
    if (g_hooks.leave)
        g_hooks.leave(g_calls[idx].call.c_str(), g_calls[idx].inst);
}

static void
protocol_violation(const char* suffix, int inst, const char* what)
{
    char b[256];
    snprintf(b, sizeof(b), "%s|device instance %d (%s #%d): %s", suffix, inst,
             g_inst[(size_t)inst].kind == DeviceKind_Camera ? "camera"
                                                            : "storage",
             g_inst[(size_t)inst].dev, what);
    g_violations.push_back(b);
}

// --------------------------------------------------------------- camera
#define CAM(c) ((MockCamera*)(c))
#define STO(s) ((MockStorage*)(s))

static enum DeviceStatusCode
m_cam_set(struct Camera* c, struct CameraProperties* s)
{
    int inst = CAM(c)->inst;
    size_t k = begin_call(g_inst[(size_t)inst].drv, inst, "set");
    int r = g_hooks.cam_set ? g_hooks.cam_set(inst, s) : Device_Ok;
    end_call(k, r);
    return (enum DeviceStatusCode)r;
}

static enum DeviceStatusCode
m_cam_get(const struct Camera* c, struct CameraProperties* s)
{
    int inst = CAM(c)->inst;
    size_t k = begin_call(g_inst[(size_t)inst].drv, inst, "get");
    int r = g_hooks.cam_get ? g_hooks.cam_get(inst, s) : Device_Ok;
    end_call(k, r);
    return (enum DeviceStatusCode)r;
}

static enum DeviceStatusCode
m_cam_get_meta(const struct Camera* c, struct CameraPropertyMetadata* m)
{
    int inst = CAM(c)->inst;
    size_t k = begin_call(g_inst[(size_t)inst].drv, inst, "get_meta");
    int r = Device_Ok;
    if (g_hooks.cam_get_meta)
        r = g_hooks.cam_get_meta(inst, m);
    else
        memset(m, 0, sizeof(*m));
    end_call(k, r);
    return (enum DeviceStatusCode)r;
}

static enum DeviceStatusCode
m_cam_get_shape(const struct Camera* c, struct ImageShape* s)
{
    int inst = CAM(c)->inst;
    size_t k = begin_call(g_inst[(size_t)inst].drv, inst, "get_shape");
    int r = Device_Ok;
    if (g_hooks.cam_get_shape)
        r = g_hooks.cam_get_shape(inst, s);
    else {
        memset(s, 0, sizeof(*s));
        s->dims = { 1, 4, 4, 1 };
        s->strides = { 1, 1, 4, 16 };
    }
    end_call(k, r);
    return (enum DeviceStatusCode)r;
}

static enum DeviceStatusCode
m_cam_start(struct Camera* c)
{
    int inst = CAM(c)->inst;
    size_t k = begin_call(g_inst[(size_t)inst].drv, inst, "start");
    int r = g_hooks.cam_start ? g_hooks.cam_start(inst) : Device_Ok;
    Inst& I = g_inst[(size_t)inst];
    I.starts++;
    if (r == Device_Ok)
        I.running = true;
    end_call(k, r);
    return (enum DeviceStatusCode)r;
}

static enum DeviceStatusCode
m_cam_stop(struct Camera* c)
{
    int inst = CAM(c)->inst;
    size_t k = begin_call(g_inst[(size_t)inst].drv, inst, "stop");
    if (!g_inst[(size_t)inst].running)
        protocol_violation("stop_without_start", inst,
                           "driver stop() called without a preceding "
                           "successful start()");
    int r = g_hooks.cam_stop ? g_hooks.cam_stop(inst) : Device_Ok;
    g_inst[(size_t)inst].running = false;
    g_inst[(size_t)inst].stops++;
    end_call(k, r);
    return (enum DeviceStatusCode)r;
}

static enum DeviceStatusCode
m_cam_trigger(struct Camera* c)
{
    int inst = CAM(c)->inst;
    size_t k = begin_call(g_inst[(size_t)inst].drv, inst, "trigger");
    int r = g_hooks.cam_trigger ? g_hooks.cam_trigger(inst) : Device_Ok;
    end_call(k, r);
    return (enum DeviceStatusCode)r;
}

static enum DeviceStatusCode
m_cam_get_frame(struct Camera* c, void* im, size_t* nbytes,
                struct ImageInfo* info)
{
    int inst = CAM(c)->inst;
    size_t k = begin_call(g_inst[(size_t)inst].drv, inst, "get_frame",
                          (int64_t)*nbytes);
    if (!g_inst[(size_t)inst].running)
        protocol_violation("frame_outside_running", inst,
                           "driver get_frame() called while the camera is "
                           "not running");
    int r = Device_Ok;
    if (g_hooks.cam_get_frame)
        r = g_hooks.cam_get_frame(inst, im, nbytes, info);
    else
        *nbytes = 0;
    g_calls[k].b = (int64_t)*nbytes;
    end_call(k, r);
    return (enum DeviceStatusCode)r;
}

// -------------------------------------------------------------- storage
static enum DeviceState
m_st_set(struct Storage* s, const struct StorageProperties* p)
{
    int inst = STO(s)->inst;
    size_t k = begin_call(g_inst[(size_t)inst].drv, inst, "set");
    int r = g_hooks.st_set ? g_hooks.st_set(inst, p) : DeviceState_Armed;
    // storage drivers report their own state with every call: the device is
    // running exactly when its last answer said so
    g_inst[(size_t)inst].running = r == DeviceState_Running;
    end_call(k, r);
    return (enum DeviceState)r;
}

static void
m_st_get(const struct Storage* s, struct StorageProperties* p)
{
    int inst = STO(s)->inst;
    size_t k = begin_call(g_inst[(size_t)inst].drv, inst, "get");
    if (g_hooks.st_get)
        g_hooks.st_get(inst, p);
    else
        memset(p, 0, sizeof(*p));
    end_call(k, 0);
}

static void
m_st_get_meta(const struct Storage* s, struct StoragePropertyMetadata* m)
{
    int inst = STO(s)->inst;
    size_t k = begin_call(g_inst[(size_t)inst].drv, inst, "get_meta");
    memset(m, 0, sizeof(*m));
    end_call(k, 0);
}

static enum DeviceState
m_st_start(struct Storage* s)
{
    int inst = STO(s)->inst;
    size_t k = begin_call(g_inst[(size_t)inst].drv, inst, "start");
    int r = g_hooks.st_start ? g_hooks.st_start(inst) : DeviceState_Running;
    Inst& I = g_inst[(size_t)inst];
    I.starts++;
    I.running = r == DeviceState_Running;
    end_call(k, r);
    return (enum DeviceState)r;
}

static enum DeviceState
m_st_append(struct Storage* s, const struct VideoFrame* f, size_t* nbytes)
{
    int inst = STO(s)->inst;
    size_t k = begin_call(g_inst[(size_t)inst].drv, inst, "append",
                          (int64_t)*nbytes);
    if (!g_inst[(size_t)inst].running)
        protocol_violation("append_outside_running", inst,
                           "driver append() called while the storage device "
                           "is not running");
    int r =
      g_hooks.st_append ? g_hooks.st_append(inst, f, nbytes) : DeviceState_Running;
    if (r != DeviceState_Running)
        g_inst[(size_t)inst].running = false;
    end_call(k, r);
    return (enum DeviceState)r;
}

static enum DeviceState
m_st_stop(struct Storage* s)
{
    int inst = STO(s)->inst;
    size_t k = begin_call(g_inst[(size_t)inst].drv, inst, "stop");
    if (!g_inst[(size_t)inst].running)
        protocol_violation("stop_without_start", inst,
                           "driver stop() called without a preceding "
                           "successful start()");
    int r = g_hooks.st_stop ? g_hooks.st_stop(inst) : DeviceState_Armed;
    // a storage driver reports its own state: if stop() answers Running the
    // device is, by its own account, still running
    g_inst[(size_t)inst].running = r == DeviceState_Running;
    g_inst[(size_t)inst].stops++;
    end_call(k, r);
    return (enum DeviceState)r;
}

static void
m_st_destroy(struct Storage* s)
{
    // only called through the driver's close in real drivers; the HAL must
    // not call it directly
    int inst = STO(s)->inst;
    size_t k = begin_call(g_inst[(size_t)inst].drv, inst, "destroy");
    protocol_violation("destroy_called_directly", inst,
                       "Storage.destroy() called by the HAL instead of the "
                       "driver's close()");
    end_call(k, 0);
}

static void
m_st_reserve(struct Storage* s, const struct ImageShape* shape)
{
    int inst = STO(s)->inst;
    size_t k = begin_call(g_inst[(size_t)inst].drv, inst, "reserve");
    if (g_hooks.st_reserve)
        g_hooks.st_reserve(inst, shape);
    end_call(k, 0);
}

// --------------------------------------------------------------- driver
#define DRV(d) (((MockDriver*)(d))->drv)

static uint32_t
m_device_count(struct Driver* d)
{
    int drv = DRV(d);
    size_t k = begin_call(drv, -1, "device_count");
    end_call(k, (int)g_drv[drv].devices.size());
    return (uint32_t)g_drv[drv].devices.size();
}

static enum DeviceStatusCode
m_describe(const struct Driver* d, struct DeviceIdentifier* id, uint64_t i)
{
    int drv = DRV(d);
    size_t k = begin_call(drv, -1, "describe", (int64_t)i);
    int r = Device_Ok;
    if (i >= g_drv[drv].devices.size())
        r = Device_Err;
    else if (g_hooks.describe)
        r = g_hooks.describe(drv, i);
    if (r == Device_Ok) {
        const DeviceDesc& dd = g_drv[drv].devices[(size_t)i];
        memset(id, 0, sizeof(*id));
        id->device_id = (uint8_t)i;
        id->kind = dd.kind;
        size_t n = dd.name.size();
        if (n > sizeof(id->name) - 1)
            n = sizeof(id->name) - 1;
        memcpy(id->name, dd.name.data(), n);
    }
    end_call(k, r);
    return (enum DeviceStatusCode)r;
}

static enum DeviceStatusCode
m_open(struct Driver* d, uint64_t dev, struct Device** out)
{
    int drv = DRV(d);
    size_t k = begin_call(drv, -1, "open", (int64_t)dev);
    int r = Device_Ok;
    if (dev >= g_drv[drv].devices.size())
        r = Device_Err;
    else if (g_hooks.open)
        r = g_hooks.open(drv, dev);
    if (r == Device_Ok) {
        Inst I;
        I.id = (int)g_inst.size();
        I.drv = drv;
        I.dev = (int)dev;
        I.kind = g_drv[drv].devices[(size_t)dev].kind;
        if (I.kind == DeviceKind_Camera) {
            MockCamera* m = (MockCamera*)calloc(1, sizeof(MockCamera));
            m->inst = I.id;
            m->camera.state = DeviceState_AwaitingConfiguration;
            m->camera.set = m_cam_set;
            m->camera.get = m_cam_get;
            m->camera.get_meta = m_cam_get_meta;
            m->camera.get_shape = m_cam_get_shape;
            m->camera.start = m_cam_start;
            m->camera.stop = m_cam_stop;
            m->camera.execute_trigger = m_cam_trigger;
            m->camera.get_frame = m_cam_get_frame;
            I.object = m;
            *out = &m->camera.device;
        } else {
            MockStorage* m = (MockStorage*)calloc(1, sizeof(MockStorage));
            m->inst = I.id;
            m->storage.state = DeviceState_AwaitingConfiguration;
            m->storage.set = m_st_set;
            m->storage.get = m_st_get;
            m->storage.get_meta = m_st_get_meta;
            m->storage.start = m_st_start;
            m->storage.append = m_st_append;
            m->storage.stop = m_st_stop;
            m->storage.destroy = m_st_destroy;
            m->storage.reserve_image_shape = m_st_reserve;
            I.object = m;
            *out = &m->storage.device;
        }
        g_inst.push_back(I);
        g_calls[k].inst = I.id;
        g_calls[k].kind = (int)I.kind;
        g_calls[k].dev = (int)dev;
    } else if (g_hooks.failed_open_leaves_stale_handle && out) {
        void* half_built = calloc(1, sizeof(MockCamera));
        free(half_built);
        *out = (struct Device*)half_built;
    }
    end_call(k, r);
    return (enum DeviceStatusCode)r;
}

static enum DeviceStatusCode
m_close(struct Driver* d, struct Device* in)
{
    int drv = DRV(d);
    // find the instance by object address among OPEN instances; a closed
    // one was freed, so a second close is a use of freed memory which the
    // lookup below reports explicitly (and ASan would on any dereference)
    int inst = -1;
    for (auto& I : g_inst)
        if (!I.closed && I.object == (void*)in)
            inst = I.id;
    size_t k = begin_call(drv, inst, "close");
    if (inst < 0) {
        char b[200];
        snprintf(b, sizeof(b),
                 "close_of_unopened|driver close() called with a device that "
                 "is not open (closed twice or never opened)");
        g_violations.push_back(b);
        end_call(k, Device_Err);
        return Device_Err;
    }
    int r = g_hooks.close ? g_hooks.close(inst) : Device_Ok;
    Inst& I = g_inst[(size_t)inst];
    I.closed = true;
    I.closes++;
    free(I.object); // any later touch by the HAL is a use-after-free
    I.object = nullptr;
    end_call(k, r);
    return (enum DeviceStatusCode)r;
}

static enum DeviceStatusCode
m_shutdown(struct Driver* d)
{
    int drv = DRV(d);
    size_t k = begin_call(drv, -1, "shutdown");
    int r = g_hooks.shutdown ? g_hooks.shutdown(drv) : Device_Ok;
    g_drv[drv].shutdowns++;
    end_call(k, r);
    return (enum DeviceStatusCode)r;
}

template<int N>
static struct Driver*
init_n(void (*)(int, const char*, int, const char*, const char*))
{
    MockDriver* m = (MockDriver*)calloc(1, sizeof(MockDriver));
    m->drv = N;
    m->driver.device_count = m_device_count;
    m->driver.describe = m_describe;
    m->driver.open = m_open;
    m->driver.close = m_close;
    m->driver.shutdown = m_shutdown;
    g_drv[N].obj = m;
    return &m->driver;
}

init_fn
driver_init(int drv)
{
    switch (drv) {
        case 0:
            return init_n<0>;
        case 1:
            return init_n<1>;
        case 2:
            return init_n<2>;
        default:
            return init_n<3>;
    }
}

int
inst_of_camera(const struct Camera* c)
{
    for (auto& I : g_inst)
        if (!I.closed && I.object == (const void*)c)
            return I.id;
    return -1;
}

int
inst_of_storage(const struct Storage* s)
{
    for (auto& I : g_inst)
        if (!I.closed && I.object == (const void*)s)
            return I.id;
    return -1;
}

std::string
check_protocol(bool require_close, std::string* suffix,
               const char* ignore_suffix)
{
    for (const std::string& v : g_violations) {
        size_t bar = v.find('|');
        if (ignore_suffix && v.substr(0, bar) == ignore_suffix)
            continue;
        *suffix = v.substr(0, bar);
        return v.substr(bar + 1);
    }
    if (require_close) {
        for (auto& I : g_inst)
            if (!I.closed) {
                *suffix = "never_closed";
                char b[160];
                snprintf(b, sizeof(b),
                         "device instance %d (%s #%d) was opened but never "
                         "closed",
                         I.id,
                         I.kind == DeviceKind_Camera ? "camera" : "storage",
                         I.dev);
                return b;
            }
    }
    return "";
}

} // namespace mock
