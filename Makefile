# Builds the simulation binary from /repo's *current working tree* plus the
# simulator in /verif.  `make` is incremental (header deps via -MMD).
REPO ?= /repo
B    ?= build/asan
CC   := gcc
CXX  := g++

# Two flavours (DESIGN.md section 2.1):
#   asan (default): ASan + UBSan subset, preemption at synchronisation level
#   plain         : asan without -mavx2 (bin2.plain.c); used by C17 in addition
#   fine          : repo C sources compiled with -fsanitize=thread but linked
#                   against our own __tsan_* runtime (sim/tsanrt.cpp), which
#                   turns every cross-thread memory access into a preemption
#                   point; no ASan (gcc refuses the combination)
FLAVOUR  ?= asan
ifeq ($(FLAVOUR),fine)
B        := build/fine
SAN      :=
CSAN     := -fsanitize=thread
FINE_SRC := sim/tsanrt.cpp
FINEDEF  := -DVSIM_FINE=1
else
SAN      := -fsanitize=address -fsanitize=bounds,unreachable,vla-bound -fno-sanitize-recover=all
CSAN     :=
FINE_SRC :=
FINEDEF  :=
endif
# plain: as asan, but without -mavx2, so that the simulated camera is built
# with bin2.plain.c (what non-x64 targets ship) instead of bin2.avx2.c
SIMD     := -mavx2
ifeq ($(FLAVOUR),plain)
B        := build/plain
SIMD     :=
FINEDEF  := -DVSIM_PLAIN=1
endif
COMMON   := -O1 -g -fno-omit-frame-pointer $(SAN) -fPIC $(SIMD) -Wno-error -w
REPOINC  := \
  -I$(REPO)/acquire-core-libs/src/acquire-core-logger \
  -I$(REPO)/acquire-core-libs/src/acquire-core-platform/linux \
  -I$(REPO)/acquire-core-libs/src/acquire-device-properties \
  -I$(REPO)/acquire-core-libs/src/acquire-device-kit \
  -I$(REPO)/acquire-core-libs/src/acquire-device-hal \
  -I$(REPO)/acquire-video-runtime/src \
  -I$(REPO)/acquire-driver-common/src \
  -I$(REPO)/acquire-driver-common/src/simcams/3rdParty/pcg-c-basic-0.9
REPODEFS := -DGIT_TAG=verif -DGIT_HASH=verif -DNDEBUG
RCFLAGS  := $(COMMON) $(CSAN) -std=gnu11 $(REPOINC) $(REPODEFS)
RCXXFLAGS:= $(COMMON) -std=gnu++20 $(REPOINC) $(REPODEFS)
VCXXFLAGS:= -O1 -g -fno-omit-frame-pointer $(SAN) $(FINEDEF) -std=gnu++20 -Wall -Wno-unused-function -Wno-missing-field-initializers -Wno-unknown-pragmas $(REPOINC)

# repo sources (object name = path with / replaced by __)
REPO_C := \
  acquire-core-libs/src/acquire-core-logger/logger.c \
  acquire-core-libs/src/acquire-core-platform/linux/platform.c \
  acquire-core-libs/src/acquire-device-properties/device/props/device.c \
  acquire-core-libs/src/acquire-device-properties/device/props/storage.c \
  acquire-core-libs/src/acquire-device-properties/device/props/components.c \
  acquire-core-libs/src/acquire-device-hal/device/hal/camera.c \
  acquire-core-libs/src/acquire-device-hal/device/hal/driver.c \
  acquire-core-libs/src/acquire-device-hal/device/hal/loader.c \
  acquire-core-libs/src/acquire-device-hal/device/hal/storage.c \
  acquire-video-runtime/src/acquire.c \
  acquire-video-runtime/src/runtime/channel.c \
  acquire-video-runtime/src/runtime/throttler.c \
  acquire-video-runtime/src/runtime/source.c \
  acquire-video-runtime/src/runtime/filter.c \
  acquire-video-runtime/src/runtime/sink.c \
  acquire-video-runtime/src/runtime/vfslice.c \
  acquire-video-runtime/src/runtime/frame_iterator.c \
  acquire-driver-common/src/basics.driver.c \
  acquire-driver-common/src/simcams/simulated.camera.c \
  acquire-driver-common/src/simcams/3rdParty/pcg-c-basic-0.9/pcg_basic.c \
  acquire-driver-common/src/storage/basic.storage.c \
  acquire-driver-common/src/storage/raw.c \
  acquire-driver-common/src/storage/trash.c
REPO_CXX := \
  acquire-core-libs/src/acquire-device-hal/device/hal/device.manager.cpp \
  acquire-driver-common/src/simcams/popcount.cpp \
  acquire-driver-common/src/simcams/imfill.pattern.cpp \
  acquire-driver-common/src/storage/side-by-side-tiff.cpp \
  acquire-driver-common/src/storage/tiff.cpp

objname = $(B)/repo/$(subst /,__,$(basename $(1))).o
REPO_OBJS := $(foreach s,$(REPO_C) $(REPO_CXX),$(call objname,$(s)))

SIM_SRCS := sim/kernel.cpp sim/plan.cpp sim/super.cpp sim/files.cpp sim/seams.cpp sim/main.cpp $(FINE_SRC)
HAR_SRCS := $(wildcard harness/*.cpp) $(wildcard world/*.cpp)
V_OBJS   := $(patsubst %.cpp,$(B)/v/%.o,$(SIM_SRCS) $(HAR_SRCS))

all: $(B)/vsim

$(B)/vsim: $(REPO_OBJS) $(V_OBJS)
	@echo "  LD  $@"; $(CXX) $(SAN) -o $@ $(V_OBJS) $(REPO_OBJS) -lpthread -ldl -lm

# ---- repo objects: compile, then apply the link seams with objcopy
define REPO_RULE_C
$(call objname,$(1)): $(REPO)/$(1) sim/seams/$(subst /,__,$(basename $(1))).txt sim/seams/_common.txt
	@mkdir -p $$(dir $$@)
	@echo "  CC  $(1)"; $(CC) $(RCFLAGS) -MMD -MP -MT $$@ -MF $$(basename $$@).d -c $$< -o $$@.tmp.o
	@cat sim/seams/_common.txt sim/seams/$(subst /,__,$(basename $(1))).txt > $$@.syms && objcopy --redefine-syms=$$@.syms $$@.tmp.o $$@.new.o && mv -f $$@.new.o $$@ && rm -f $$@.tmp.o $$@.syms
endef
define REPO_RULE_CXX
$(call objname,$(1)): $(REPO)/$(1) sim/seams/$(subst /,__,$(basename $(1))).txt sim/seams/_common.txt
	@mkdir -p $$(dir $$@)
	@echo "  CXX $(1)"; $(CXX) $(RCXXFLAGS) -MMD -MP -MT $$@ -MF $$(basename $$@).d -c $$< -o $$@.tmp.o
	@cat sim/seams/_common.txt sim/seams/$(subst /,__,$(basename $(1))).txt > $$@.syms && objcopy --redefine-syms=$$@.syms $$@.tmp.o $$@.new.o && mv -f $$@.new.o $$@ && rm -f $$@.tmp.o $$@.syms
endef
$(foreach s,$(REPO_C),$(eval $(call REPO_RULE_C,$(s))))
$(foreach s,$(REPO_CXX),$(eval $(call REPO_RULE_CXX,$(s))))

# one rename file per repo object; empty = no seam for that object
sim/seams/%.txt:
	@mkdir -p sim/seams
	@touch $@

$(B)/v/%.o: %.cpp
	@mkdir -p $(dir $@)
	@echo "  CXX $<"; $(CXX) $(VCXXFLAGS) -MMD -MP -c $< -o $@

-include $(REPO_OBJS:.o=.d)
-include $(V_OBJS:.o=.d)

clean:
	rm -rf build

.PHONY: all clean
.SECONDARY:
